#!/usr/bin/env python3
"""usage: seed_results.py <batch log> ...   -- collects the SEEDRESULT lines of lib/seed_batch.sh runs (and the per-seed
logs next to them) into seeded/results.json: {seed: {detected, rc, prop, tier, violations: [...], undecided: [...]}}.
Later logs override earlier ones for the same seed."""
import json, os, re, sys
HERE = os.path.dirname(os.path.dirname(os.path.abspath(__file__)))
out_path = os.path.join(HERE, 'seeded', 'results.json')
res = {}
if os.path.exists(out_path):
    try: res = json.load(open(out_path))
    except Exception: res = {}
for log in sys.argv[1:]:
    d = os.path.dirname(log)
    for l in open(log, errors='replace'):
        m = re.match(r'SEEDRESULT (\S+) (\S+) tier=(\S+) rc=(\d+) (\d+) violations:\s*(.*)$', l.strip())
        if not m: continue
        sid, prop, tier, rc, nv, names = m.group(1), m.group(2), m.group(3), int(m.group(4)), int(m.group(5)), m.group(6).split()
        und = []
        slog = os.path.join(d, 'verif', 'seed_%s.log' % os.path.basename(sid))
        if os.path.exists(slog):
            und = [re.sub(r'^UNDECIDED property=\S+ ', '', x.strip())[:240] for x in open(slog, errors='replace') if x.startswith('UNDECIDED')]
        res[sid] = {'detected': rc == 1 and nv > 0, 'rc': rc, 'prop': prop, 'tier': tier,
                    'violations': [re.sub(r'^\w+-', '', n).replace('.json', '') for n in names], 'undecided': und[:3]}
json.dump(res, open(out_path, 'w'), indent=1, sort_keys=True)
print('%d seeds in %s' % (len(res), out_path))
