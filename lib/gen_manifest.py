#!/usr/bin/env python3
"""Regenerate MANIFEST.json from lib/registry.py (keeps checks / not_applicable in sync)."""
import json, os, sys
HERE = os.path.dirname(os.path.dirname(os.path.abspath(__file__)))
sys.path.insert(0, os.path.join(HERE, 'lib'))
import registry

ALL = ['C%02d' % i for i in range(1, 21)]
checks = []
for pid in ALL:
    if pid not in registry.PROPS:
        continue
    c = registry.PROPS[pid]
    checks.append({
        'property_id': pid,
        'quick_cmd': './check %s --tier quick' % pid,
        'thorough_cmd': './check %s --tier thorough' % pid,
        'evidence_file': '/verif/evidence/%s.json' % pid,
        'replay_cmd_template': './check --replay {path}',
        'engine': 'verus-extract + kani' if c.get('verus') else 'kani',
        'level_claimed': {
            'category': c['level'],
            'text': c.get('level_text', 'Decided by contracts on the real code: ' + '; '.join(c.get('trusted', [])[:3]) + ('. Verus units (unbounded): ' + ', '.join(c['verus']) if c.get('verus') else '') + '. See DESIGN.md section A.2 for the function list; bounded harnesses are listed separately in the evidence and never counted as proved.'),
            'design_ref': 'DESIGN.md §5 ' + pid,
        },
        'level_note': c.get('level_note', 'Trusted: ' + '; '.join(c.get('trusted', [])) + '. Not decided: ' + '; '.join(c.get('undecided_clauses', []))),
        'technique': c.get('technique', 'contract-based deductive verification: ' + ('Verus on mechanically extracted code + ' if c.get('verus') else '') + 'Kani/CBMC contracts and harnesses on the real crate'),
    })
na = []
for pid in ALL:
    if pid in registry.PROPS:
        continue
    na.append({'property_id': pid, 'reason': registry.NOT_APPLICABLE.get(pid, 'not yet under contract in this session (work in progress); no check is claimed')})
m = {
    'version': 1,
    'setup_cmd': './check --setup',
    'hooks': {
        'guard': 'cfg(kani) (set by cargo-kani) / --cfg georust_geo_verif',
        'enable': 'GEO_VERIF_DIR=/verif cargo kani ... in /repo/geo-types or /repo/geo (cfg(kani) activates the `mod verif` include hooks); Verus units read /repo sources directly and need no hook',
        'baseline_off_cmd': 'cd /repo && cargo nextest run --workspace --no-fail-fast --tool-config-file pb:/w/lib/nextest.toml --profile pb --test-threads 8 --offline || cargo test --workspace --no-fail-fast --offline',
        'source_commits': registry.HOOK_COMMITS,
        'add_only': True,
    },
    'engines': [
        {'name': 'verus-extract', 'path': 'lib/verus_unit.py', 'serves_properties': [p for p in ALL if p in registry.PROPS and registry.PROPS[p].get('verus')],
         'kind_free_text': 'mechanical extraction of /repo functions into a Verus unit on every run (lib/extract.py), SMT discharge by Verus/Z3'},
        {'name': 'kani', 'path': 'lib/kani_run.py', 'serves_properties': [p for p in ALL if p in registry.PROPS and registry.PROPS[p].get('kani')],
         'kind_free_text': 'cargo kani on the real crates through guarded include hooks; concrete playback for native replay'},
    ],
    'checks': checks,
    'not_applicable': na,
    'notes': 'exit 2 of a check = undecided (tool limit, lost anchor); never printed as VIOLATION. known_findings.json lists genuine defects (open / fixed).',
}
json.dump(m, open(os.path.join(HERE, 'MANIFEST.json'), 'w'), indent=1)
print('MANIFEST.json: %d checks, %d not_applicable' % (len(checks), len(na)))
