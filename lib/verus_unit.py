"""Expand a Verus unit template against /repo's working tree and run Verus on it.

Template directives (lines starting with `//@`):
  //@include <file relative to contracts/verus>
  //@type <repo-relative path> | <Name>
  //@fn <repo-relative path> | <impl/trait header or -> | <fn name> [| nth=N] [| id=<obligation id>]
      //@ret <name>
      //@spec            (following plain lines: requires/ensures/decreases)
      //@loop <n> [<ghost iterator name>]   (following plain lines: invariant/decreases clauses)
      //@before <nth> `<needle>`            (following plain lines: proof text inserted before the needle)
      //@after <nth> `<needle>`
      //@loopentry <n>                      (following plain lines: proof text inserted at the start of loop n's body; no statement anchor)
      //@loopexit <n>                       (… inserted right after loop n)
      //@nested <fn name> <ret name>        (following plain lines: contract of a fn item nested in the body)
      //@deimpl                             (X11: impl-Trait arguments become named generic parameters)
      //@closure <nth|*|?> `<closure text>` | <typed params> | <ret: Type>   (following lines: the closure's ensures; X10; `*` = every occurrence, at least one; `?` = every occurrence, none allowed: the hint follows the closure if a refactor moves it to a sibling method)
      //@entry                              (following plain lines: proof text inserted at the start of the body; no anchor)
  //@end
Everything else is copied through (prelude, spec functions, lemmas, impl headers).
"""
import json
import os
import re
import subprocess
import time

from extract import Source, ExtractError, splice_fn, splice_type, TRANSFORMS

VERIF = os.path.dirname(os.path.dirname(os.path.abspath(__file__)))
REPO = os.environ.get('GEO_REPO', '/repo')
UNIT_DIR = os.path.join(VERIF, 'contracts', 'verus')
WORK = os.path.join(VERIF, '.work')


class Expanded:
    def __init__(self):
        self.lines = []          # generated text lines
        self.origin = []         # per line: ('ghost'|'code'|'tmpl', obligation id or None, src ref or None)
        self.fns = []            # dicts: id, name, path, ctx, first_line, last_line, src_line
        self.sources = {}        # rel -> sha
        self.assumption_lines = []


def _read_tmpl(name, seen=None):
    path = os.path.join(UNIT_DIR, name)
    out = []
    for ln in open(path, encoding='utf-8').read().split('\n'):
        m = re.match(r'\s*//@include\s+(\S+)', ln)
        if m:
            out.extend(_read_tmpl(m.group(1)))
        else:
            out.append(ln)
    return out


def expand(unit, repo=None):
    repo = repo or REPO
    ex = Expanded()
    srcs = {}

    def source(rel):
        if rel not in srcs:
            srcs[rel] = Source(repo, rel)
            ex.sources[rel] = srcs[rel].sha
        return srcs[rel]
    lines = ['#![feature(allocator_api)]', '#![allow(unused_imports, dead_code, unused_variables, unused_mut)]'] + _read_tmpl(unit + '.rs')
    i = 0

    def emit(text, kind, oid=None, ref=None):
        for l in text.split('\n'):
            ex.lines.append(l)
            ex.origin.append((kind, oid, ref))
    while i < len(lines):
        ln = lines[i]
        m = re.match(r'\s*//@type\s+(.*)$', ln)
        if m:
            rel, name = [x.strip() for x in m.group(1).split('|')]
            s = source(rel)
            kind = None
            for k in ('struct', 'enum'):
                try:
                    it = s.find(k, name, ctx=None)
                    kind = k
                    break
                except ExtractError:
                    it = None
            if it is None:
                raise ExtractError('lost anchor: type %s not found in %s' % (name, rel))
            emit(splice_type(s, it), 'code', None, '%s:%d' % (rel, s.line_of(it.sig_start)))
            i += 1
            continue
        m = re.match(r'\s*//@fn\s+(.*)$', ln)
        if m:
            parts = [x.strip() for x in m.group(1).split('|')]
            rel, ctx, name = parts[0], parts[1], parts[2]
            opts = dict(p.split('=', 1) for p in parts[3:])
            ann = {'loops': {}, 'before': [], 'after': []}
            cur = None
            buf = []

            def flush():
                if cur is None: return
                text = '\n'.join(buf)
                if cur[0] == 'spec': ann['spec'] = text
                elif cur[0] == 'loop': ann['loops'][cur[1]] = {'iter': cur[2], 'inv': text}
                elif cur[0] in ('before', 'after'): ann[cur[0]].append((cur[1], cur[2], text))
                elif cur[0] == 'entry': ann['entry'] = text
                elif cur[0] == 'closure': ann.setdefault('closures', []).append((cur[1], cur[2], cur[3], cur[4], text))
                elif cur[0] == 'nested': ann.setdefault('nested', []).append((cur[1], cur[2], text))
                elif cur[0] in ('loopentry', 'loopexit'): ann.setdefault(cur[0], {})[cur[1]] = text
            i += 1
            while i < len(lines):
                l = lines[i]
                d = re.match(r'\s*//@(\w+)\s*(.*)$', l)
                if d:
                    flush(); buf = []; cur = None
                    cmd, arg = d.group(1), d.group(2).strip()
                    if cmd == 'end':
                        break
                    if cmd == 'ret': ann['ret'] = arg
                    elif cmd == 'spec': cur = ('spec',)
                    elif cmd == 'entry': cur = ('entry',)
                    elif cmd == 'closure':
                        mm = re.match(r'(\d+|\*|\?)\s+`(.*)`\s*\|\s*(.*?)\s*\|\s*(.*?)\s*$', arg)
                        if not mm: raise ExtractError('bad directive: ' + l)
                        cur = ('closure', 0 if mm.group(1) == '*' else -1 if mm.group(1) == '?' else int(mm.group(1)), mm.group(2), mm.group(3), mm.group(4))
                    elif cmd == 'deimpl': ann['deimpl'] = True
                    elif cmd == 'sigsubst':
                        mm = re.match(r'`(.*)`\s*=>\s*`(.*)`\s*$', arg)
                        if not mm: raise ExtractError('bad directive: ' + l)
                        ann.setdefault('sigsubst', []).append((mm.group(1), mm.group(2)))
                    elif cmd == 'nested': cur = ('nested', arg.split()[0], arg.split()[1])
                    elif cmd in ('loopentry', 'loopexit'): cur = (cmd, int(arg.split()[0]))
                    elif cmd == 'loop':
                        a = arg.split()
                        cur = ('loop', int(a[0]), a[1] if len(a) > 1 else None)
                    elif cmd in ('before', 'after'):
                        mm = re.match(r'(\d+)\s+`(.*)`\s*$', arg)
                        if not mm: raise ExtractError('bad directive: ' + l)
                        cur = (cmd, int(mm.group(1)), mm.group(2))
                    else:
                        raise ExtractError('unknown directive: ' + l)
                else:
                    buf.append(l)
                i += 1
            else:
                raise ExtractError('unterminated //@fn block for ' + name)
            s = source(rel)
            it = s.find('fn', name, ctx=ctx, nth=int(opts.get('nth', '1')))
            text = splice_fn(s, it, ann)
            oid = opts.get('id', name)
            first = len(ex.lines) + 1
            src_line = s.line_of(it.sig_start)
            # mark ghost vs code lines: lines that come from the annotation text are ghost
            ghost_texts = set()
            for t in [ann.get('spec') or ''] + [v['inv'] for v in ann['loops'].values()] + [x[2] for x in ann['before'] + ann['after']] + [ann.get('entry') or ''] + [x[4] for x in ann.get('closures') or []] + [x[2] for x in ann.get('nested') or []] + list((ann.get('loopentry') or {}).values()) + list((ann.get('loopexit') or {}).values()):
                for gl in t.split('\n'):
                    if gl.strip(): ghost_texts.add(gl.strip())
            for l in text.split('\n'):
                ex.lines.append(l)
                ex.origin.append(('ghost' if l.strip() in ghost_texts else 'code', oid, '%s:%d' % (rel, src_line)))
            ex.fns.append({'id': oid, 'name': name, 'path': rel, 'ctx': ctx, 'first_line': first,
                           'last_line': len(ex.lines), 'src_line': src_line, 'props': opts.get('props', '')})
            i += 1
            continue
        ex.lines.append(ln)
        ex.origin.append(('tmpl', None, None))
        i += 1
    # vacuity canary: must FAIL; if it verifies the axioms of the unit are inconsistent
    ex.canary_line = len(ex.lines) + 2
    ex.lines += ['verus! {', 'proof fn verif_vacuity_canary() ensures false {}', '}']
    ex.origin += [('tmpl', None, None)] * 3
    for k, l in enumerate(ex.lines):
        if re.search(r'\b(assume|admit)\s*\(|external_body|assume_specification|external_fn_specification|\bexternal\b', l) and not l.strip().startswith('//'):
            ex.assumption_lines.append((k + 1, l.strip()))
    return ex


A_KINDS = ('postcondition not satisfied', 'precondition not satisfied', 'unable to prove post-condition of closure', 'possible arithmetic underflow/overflow',
           'possible division by zero', 'index out of bounds', 'assertion failed', 'unreachable',
           'possible bit shift underflow/overflow', 'panic')
B_KINDS = ('invariant not satisfied', 'loop invariant', 'decreases not satisfied', 'Resource limit', 'rlimit',
           'recommendation not met', 'could not prove termination', 'assert_by', 'timed out')


def run(unit, repo=None, rlimit=30, timeout=300):
    """returns dict: status in ok|fail|undecided, functions [...], failures [...], tool_error, wall_s, file"""
    t0 = time.time()
    res = {'unit': unit, 'status': 'undecided', 'functions': [], 'failures': [], 'tool_error': None,
           'sources': {}, 'assumptions': [], 'verified': 0, 'errors': 0, 'smt_ms': 0}
    try:
        ex = expand(unit, repo)
    except (ExtractError, OSError) as e:
        res['tool_error'] = 'extractor: %s' % e
        res['wall_s'] = time.time() - t0
        return res
    os.makedirs(os.path.join(WORK, 'verus'), exist_ok=True)
    path = os.path.join(WORK, 'verus', unit + '.rs')
    open(path, 'w').write('\n'.join(ex.lines))
    res['file'] = path
    res['sources'] = ex.sources
    res['assumptions'] = ['%s:%d %s' % (unit, n, t) for n, t in ex.assumption_lines]
    cmd = ['timeout', str(timeout), 'verus', path, '--output-json', '--time', '--error-format=json',
           '--rlimit', str(rlimit), '--multiple-errors', '5', '--no-report-long-running']
    res['cmd'] = ' '.join(cmd)
    p = subprocess.run(cmd, cwd=os.path.join(WORK, 'verus'), capture_output=True, text=True)
    res['wall_s'] = time.time() - t0
    if p.returncode == 124:
        res['tool_error'] = 'verus timeout after %ds' % timeout
        return res
    try:
        js = json.loads(p.stdout)
    except Exception:
        js = None
    diags = []
    for l in p.stderr.split('\n'):
        l = l.strip()
        if l.startswith('{'):
            try:
                diags.append(json.loads(l))
            except Exception:
                pass
    errs = [d for d in diags if d.get('level') == 'error']
    if js is None or 'verification-results' not in js:
        res['tool_error'] = 'verus produced no result: ' + (errs[0]['message'] if errs else p.stderr[-400:])
        return res
    vr = js['verification-results']
    res['verified'], res['errors'] = vr.get('verified', 0), vr.get('errors', 0)
    # per-function breakdown
    fb = []
    try:
        for mod in js['times-ms']['smt']['smt-run-module-times']:
            fb.extend(mod.get('function-breakdown', []))
        res['smt_ms'] = js['times-ms']['smt'].get('smt-run', 0)
    except Exception:
        pass
    res['breakdown'] = [{'function': f['function'], 'ok': f['success'], 'ms': f.get('time', 0)} for f in fb]
    if vr.get('encountered-vir-error') or (vr.get('encountered-error') and res['errors'] == 0) or (js and not fb and res['verified'] == 0):
        msg = '; '.join(e['message'] for e in errs[:3])
        res['tool_error'] = 'verus front-end error: ' + msg
        res['diag'] = [_short(d, ex) for d in errs[:6]]
        return res
    # map diagnostics to functions
    res['canary_failed'] = False
    for d in errs:
        msg = d['message']
        if msg.startswith('aborting due to'):
            continue
        if any(s_['line_start'] == ex.canary_line for s_ in d.get('spans', [])):
            res['canary_failed'] = True
            continue
        sp = [s for s in d.get('spans', []) if s.get('is_primary')] or d.get('spans', [])
        line = sp[0]['line_start'] if sp else 0
        # the function the failure belongs to: any span inside an extracted fn
        fn = None
        for s in d.get('spans', []):
            for f in ex.fns:
                if f['first_line'] <= s['line_start'] <= f['last_line']:
                    fn = f
        allspans = [(s['line_start'], (s.get('label') or ''), (s['text'][0]['text'].strip() if s.get('text') else '')) for s in d.get('spans', [])]
        origin = ex.origin[line - 1][0] if 0 < line <= len(ex.origin) else 'tmpl'
        kind = 'B'
        if any(msg.startswith(k) or k in msg for k in A_KINDS):
            kind = 'A'
        if any(k in msg for k in B_KINDS):
            kind = 'B'
        if msg.startswith('assertion failed') and origin != 'code':
            kind = 'B'   # a proof-block assertion, not an assert!/debug_assert! of the code
        if fn is None:
            kind = 'B'   # failure inside a lemma / template function: proof maintenance
        res['failures'].append({'kind': kind, 'message': msg, 'gen_line': line, 'origin': origin,
                                'fn': fn['id'] if fn else None,
                                'src': ('%s:%d' % (fn['path'], fn['src_line'])) if fn else None,
                                'spans': allspans, 'rendered': (d.get('rendered') or '')[:3000]})
    # function accounting: every extracted fn must be reported verified
    byname = {}
    for f in res['breakdown']:
        byname.setdefault(f['function'].split('::')[-1], []).append(f)
    failed_fns = set(x['fn'] for x in res['failures'] if x['fn'])
    for f in ex.fns:
        ents = byname.get(f['name'], [])
        ok = f['id'] not in failed_fns
        res['functions'].append({'id': f['id'], 'fn': f['name'], 'path': f['path'], 'ctx': f['ctx'], 'src_line': f['src_line'],
                                 'ok': ok, 'smt_queries': len(ents), 'ms': sum(e['ms'] for e in ents), 'props': f['props']})
    res['errors'] -= 1 if res['canary_failed'] else 0
    if res['errors'] == 0 and not res['failures']:
        res['status'] = 'ok' if res['canary_failed'] else 'undecided'
    elif any(x['kind'] == 'A' for x in res['failures']):
        res['status'] = 'fail'
    else:
        res['status'] = 'undecided'
    return res


def _short(d, ex):
    sp = [s for s in d.get('spans', []) if s.get('is_primary')]
    return {'message': d['message'], 'line': sp[0]['line_start'] if sp else None,
            'text': sp[0]['text'][0]['text'] if sp and sp[0].get('text') else None}


if __name__ == '__main__':
    import sys
    r = run(sys.argv[1])
    r.pop('breakdown', None)
    print(json.dumps(r, indent=1)[:6000])
