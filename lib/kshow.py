import sys, re
sys.path.insert(0,'/verif/lib')
import kani_run
crate=sys.argv[1]; pat=sys.argv[2]
src=open('/verif/contracts/kani/%s/%s' % ('geo_types' if crate=='geo-types' else 'geo', sys.argv[3])).read()
names=re.findall(r'k_harness\d*!\((\w+),', src)+re.findall(r'#\[kani::proof[^\]]*\]\s*(?:#\[[^\]]*\]\s*)*fn (\w+)', src)
names=[n for n in dict.fromkeys(names) if re.search(pat,n)]
import os
res,meta=kani_run.run(crate,names,srcfiles={n: sys.argv[3] for n in names},extra=os.environ.get('KEXTRA','').split() or None,jobs=int(sys.argv[4]) if len(sys.argv)>4 else 8, harness_timeout=int(sys.argv[5]) if len(sys.argv)>5 else 120)
print(meta['wall_s'], meta['compile_error'])
for n,r in res.items(): print('%-45s %-8s %6.1fs checks=%s covers=%s %s' % (n, r['status'], r['time_s'], r['checks'], r['covers'], [c['desc'][:60] for c in r['failed_checks']]))
if meta['compile_error']: print(meta['raw_tail'])
