"""Minimal Rust lexer: enough to find items, match braces and skip comments/strings.

Token = (kind, text, start, end) with kind in
  'ws', 'lcomment', 'bcomment', 'str', 'char', 'lifetime', 'ident', 'num', 'punct'
Offsets are byte offsets into the (str) source.
"""
import re

_IDENT = re.compile(r'[A-Za-z_][A-Za-z0-9_]*')
_NUM = re.compile(r'[0-9][0-9A-Za-z_]*(\.[0-9][0-9A-Za-z_]*)?([eE][+-]?[0-9_]+)?[A-Za-z0-9_]*')
_WS = re.compile(r'\s+')
_RAWSTR = re.compile(r'b?r(#*)"')


class LexError(Exception):
    pass


def lex(src):
    toks = []
    i, n = 0, len(src)
    while i < n:
        c = src[i]
        m = _WS.match(src, i)
        if m:
            toks.append(('ws', m.group(), i, m.end())); i = m.end(); continue
        if src.startswith('//', i):
            j = src.find('\n', i)
            j = n if j < 0 else j
            toks.append(('lcomment', src[i:j], i, j)); i = j; continue
        if src.startswith('/*', i):
            depth, j = 1, i + 2
            while j < n and depth:
                if src.startswith('/*', j): depth += 1; j += 2
                elif src.startswith('*/', j): depth -= 1; j += 2
                else: j += 1
            if depth: raise LexError('unterminated block comment at %d' % i)
            toks.append(('bcomment', src[i:j], i, j)); i = j; continue
        m = _RAWSTR.match(src, i)
        if m:
            close = '"' + m.group(1)
            j = src.find(close, m.end())
            if j < 0: raise LexError('unterminated raw string at %d' % i)
            j += len(close)
            toks.append(('str', src[i:j], i, j)); i = j; continue
        if c == '"' or (c == 'b' and src.startswith('b"', i)):
            j = i + (2 if c == 'b' else 1)
            while j < n and src[j] != '"':
                j += 2 if src[j] == '\\' else 1
            if j >= n: raise LexError('unterminated string at %d' % i)
            j += 1
            toks.append(('str', src[i:j], i, j)); i = j; continue
        if c == "'" or (c == 'b' and src.startswith("b'", i)):
            k = i + (2 if c == 'b' else 1)
            # char literal: 'x' or '\..' ; lifetime: 'ident not followed by '
            if k < n and src[k] == '\\':
                j = k + 2
                while j < n and src[j] != "'": j += 1
                toks.append(('char', src[i:j + 1], i, j + 1)); i = j + 1; continue
            if k + 1 < n and src[k + 1] == "'":
                toks.append(('char', src[i:k + 2], i, k + 2)); i = k + 2; continue
            m = _IDENT.match(src, k)
            if m and c == "'":
                toks.append(('lifetime', src[i:m.end()], i, m.end())); i = m.end(); continue
            # multi-byte char literal
            j = src.find("'", k)
            if j < 0: raise LexError('bad quote at %d' % i)
            toks.append(('char', src[i:j + 1], i, j + 1)); i = j + 1; continue
        m = _IDENT.match(src, i)
        if m:
            toks.append(('ident', m.group(), i, m.end())); i = m.end(); continue
        m = _NUM.match(src, i)
        if m:
            # do not swallow `0..n` ranges or method calls `1.max(..)`
            txt = m.group()
            mm = re.match(r'[0-9][0-9A-Za-z_]*', txt)
            if '.' in txt:
                after = txt[mm.end() + 1:mm.end() + 2]
                if not after.isdigit():
                    txt = mm.group()
            toks.append(('num', txt, i, i + len(txt))); i += len(txt); continue
        toks.append(('punct', c, i, i + 1)); i += 1
    return toks


def significant(toks):
    """indices of non-whitespace, non-comment tokens"""
    return [k for k, t in enumerate(toks) if t[0] not in ('ws', 'lcomment', 'bcomment')]


OPEN = {'(': ')', '[': ']', '{': '}'}
CLOSE = {v: k for k, v in OPEN.items()}


def match_close(toks, k):
    """toks[k] is an opening bracket; return index of the matching close token."""
    assert toks[k][1] in OPEN, toks[k]
    depth = 0
    for j in range(k, len(toks)):
        t = toks[j]
        if t[0] != 'punct':
            continue
        if t[1] in OPEN: depth += 1
        elif t[1] in CLOSE:
            depth -= 1
            if depth == 0:
                return j
    raise LexError('unbalanced bracket at offset %d' % toks[k][2])
