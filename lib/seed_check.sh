#!/bin/bash
# usage: seed_check.sh <patch.diff> <PROP> [tier]   -- apply a seeded change to /repo, run the check, undo
P=$1; PROP=$2; TIER=${3:-quick}
cd /repo && git status --short | grep -v '^??' | head -3
git -C /repo apply $P || { echo "patch does not apply"; exit 9; }
cd /verif && ./check $PROP --tier $TIER > .work/seedcheck_$PROP.log 2>&1; rc=$?
git -C /repo checkout -- .
echo "rc=$rc"; grep -E "^VIOLATION|^UNDECIDED|^KNOWN|^  failed|^  obligation|^C[0-9]+:" .work/seedcheck_$PROP.log | head -20
