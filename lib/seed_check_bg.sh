#!/bin/bash
# usage (inside `vp run --with-repo`): lib/seed_check_bg.sh <patch> <PROP> [tier]
# applies the seed to the run's own /repo snapshot and checks THAT (GEO_REPO), leaving /repo alone
P=$1; PROP=$2; TIER=${3:-quick}
git -C $VP_RUN_REPO apply $P || { echo "patch does not apply"; exit 9; }
GEO_REPO=$VP_RUN_REPO ./check $PROP --tier $TIER; echo "rc=$?"
