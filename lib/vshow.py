import json,sys
sys.path.insert(0,'/verif/lib')
import verus_unit
r=verus_unit.run(sys.argv[1])
print(r['status'], r['tool_error'], r.get('wall_s'))
for d in r.get('diag') or []: print('  DIAG', d)
for f in r['functions']: print(' ', f['id'], 'OK' if f['ok'] else 'FAILED', f['ms'],'ms')
for f in r['failures']:
    print(f['kind'], f['fn'], f['message'])
    if '-v' in sys.argv: print(f['rendered'])
    else:
        for s in f['spans']: print('     ', s)
print('verified',r['verified'],'errors',r['errors'])
