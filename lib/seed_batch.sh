#!/bin/bash
# usage (inside `vp run --with-repo`): lib/seed_batch.sh "<SEED-ID:PROP:tier> ..."   -- sequential seed checks on the run's repo snapshot
for item in $1; do
  id=${item%%:*}; rest=${item#*:}; prop=${rest%%:*}; tier=${rest#*:}
  git -C $VP_RUN_REPO checkout -q -- . 
  PATCH=/verif/seeded/$id/patch.diff; [ -f /verif/seeded/$id.diff ] && PATCH=/verif/seeded/$id.diff
  if ! git -C $VP_RUN_REPO apply $PATCH; then echo "SEEDRESULT $id $prop patch-does-not-apply"; continue; fi
  GEO_REPO=$VP_RUN_REPO ./check $prop --tier $tier > seed_$(basename $id).log 2>&1; rc=$?
  echo "SEEDRESULT $id $prop tier=$tier rc=$rc $(grep -c '^VIOLATION' seed_$(basename $id).log) violations: $(grep '^VIOLATION' seed_$(basename $id).log | sed 's/.*replay\///' | tr '\n' ' ')"
  grep -E "^UNDECIDED" seed_$(basename $id).log | head -3
done
git -C $VP_RUN_REPO checkout -q -- .
