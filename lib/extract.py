"""Mechanical extraction of items from /repo sources for Verus units.

The only text transformations applied to extracted code are X1..X7 (see TRANSFORMS);
everything else (contracts, invariants, proof blocks) comes from the unit template and is
ghost text erased by Verus.
"""
import hashlib
import os
import re
from rustlex import lex, match_close, LexError, OPEN

TRANSFORMS = [
    "X1 drop outer attributes and doc comments of the extracted item (#[inline], #[must_use], docs, cfg_attr(serde))",
    "X2 scalar trait bounds (CoordNum, CoordFloat, GeoNum, GeoFloat, num_traits::{Float,Signed,..}) resolve to the axiomatised prelude traits of the same names",
    "X3 expand coord!{x:a,y:b} -> Coord{x:a,y:b}; drop log macros (debug!/trace!/info!/warn!/error!)",
    "X4 debug_assert!/assert!/unreachable!/panic!/unwrap/expect are kept and become proof obligations",
    "X5 derive lists of extracted structs/enums are reduced to the traits Verus understands (PartialEq, Eq, Clone, Copy); default type parameters (`= f64`) are dropped",
    "X6 ghost text from the unit template is spliced in: named return, requires/ensures/decreases, loop invariants, ghost iterator names, proof blocks",
    "X7 `impl Trait` in argument position is kept; visibility qualifiers pub(crate)/pub(super) are rewritten to pub",
    "X9 assert_eq!(a, b) / debug_assert_eq!(a, b) -> assert!((a) == (b)) / debug_assert!((a) == (b)) (same panic condition; the formatted message, which needs Debug, is dropped)",
    "X10 (directive //@closure) an inline closure `|x| expr` is given parameter and return types and a ghost contract: `|x: T| -> (r: U) ensures .. { expr }`; the body expression is verbatim",
    "X12 panic!(fmt, args..) -> panic!(\"..\") : the panic (a proof obligation) is kept, the formatted message dropped",
    "X11 (directive //@deimpl, unit c19_map only) `f: impl Bound` in argument position -> `f: ImplN` with a generic parameter `ImplN: Bound` (the desugaring rustc performs; Verus 0.2026.09.13 crashes on `requires` over impl-Trait arguments of trait methods)",
    "X13 (directive //@sigsubst, unit c12_closest_of only) a generic parameter of the signature is instantiated with a concrete type (`I: IntoIterator<Item = C>` -> a borrowed Vec): the body is verbatim and is verified at that instantiation only (Verus cannot iterate over an abstract IntoIterator)",
    "X8 where Verus forbids `requires` on an impl of a std trait (Iterator::next), the extracted method body is checked as an impl of a local trait of the same shape declared in the unit (c10_earcut_glue: IteratorWithInvariant)",
]


class ExtractError(Exception):
    pass


def norm(s):
    return re.sub(r'\s+', ' ', s).strip()


class Item:
    def __init__(self, kind, name, ctx, start, sig_start, body_open, end, header=None):
        self.kind, self.name, self.ctx = kind, name, ctx
        self.start, self.sig_start, self.body_open, self.end = start, sig_start, body_open, end
        self.header = header

    def __repr__(self):
        return '<%s %s in %r>' % (self.kind, self.name, self.ctx)


class Source:
    def __init__(self, repo, rel):
        self.rel = rel
        self.path = os.path.join(repo, rel)
        try:
            self.text = open(self.path, encoding='utf-8').read()
        except OSError as e:
            raise ExtractError('cannot read %s: %s' % (rel, e))
        self.sha = hashlib.sha256(self.text.encode()).hexdigest()[:16]
        try:
            self.toks = lex(self.text)
        except LexError as e:
            raise ExtractError('lex error in %s: %s' % (rel, e))
        self.items = []
        sig = [k for k, t in enumerate(self.toks) if t[0] not in ('ws', 'lcomment', 'bcomment')]
        self._sig = sig
        self._scan(0, len(sig), ctx='')

    # --- item scanner over significant-token positions [a,b) ---
    def _tok(self, p):
        return self.toks[self._sig[p]]

    def _match(self, p):
        """p is position (in sig) of an opening bracket; return position of its close."""
        j = match_close(self.toks, self._sig[p])
        # map back token index -> sig position
        lo, hi = p, len(self._sig) - 1
        while lo < hi:
            mid = (lo + hi) // 2
            if self._sig[mid] < j: lo = mid + 1
            else: hi = mid
        return lo

    def _scan(self, a, b, ctx):
        p = a
        while p < b:
            start = p
            # attributes
            while p < b and self._tok(p)[1] == '#':
                q = p + 1
                if self._tok(q)[1] == '!': q += 1
                if self._tok(q)[1] != '[':
                    break
                p = self._match(q) + 1
            if p >= b: break
            first = p
            # visibility / qualifiers
            while p < b:
                t = self._tok(p)
                if t[1] == 'pub':
                    p += 1
                    if p < b and self._tok(p)[1] == '(':
                        p = self._match(p) + 1
                    continue
                if t[1] in ('unsafe', 'const', 'async', 'default') and self._tok(p + 1)[1] in ('fn', 'impl', 'unsafe', 'extern', 'async', 'trait'):
                    p += 1; continue
                if t[1] == 'extern' and self._tok(p + 1)[0] == 'str' and self._tok(p + 2)[1] == 'fn':
                    p += 2; continue
                break
            if p >= b: break
            t = self._tok(p)
            kw = t[1]
            if kw in ('impl', 'trait', 'mod'):
                q = p + 1
                while q < b and self._tok(q)[1] not in ('{', ';'):
                    if self._tok(q)[1] in ('(', '['):
                        q = self._match(q)
                    q += 1
                if q >= b: raise ExtractError('%s: unterminated %s' % (self.rel, kw))
                if self._tok(q)[1] == ';':
                    p = q + 1; continue
                close = self._match(q)
                header = norm(self.text[self._tok(p)[2]:self._tok(q)[2]])
                name = self._tok(p + 1)[1] if kw != 'impl' else header
                self.items.append(Item(kw, name, ctx, self._tok(start)[2], self._tok(first)[2],
                                       self._tok(q)[2], self._tok(close)[3], header=header))
                sub = header if kw != 'mod' else ctx
                self._scan(q + 1, close, sub)
                p = close + 1
                continue
            if kw == 'fn':
                name = self._tok(p + 1)[1]
                q = p + 2
                while q < b and self._tok(q)[1] not in ('{', ';'):
                    if self._tok(q)[1] in ('(', '['):
                        q = self._match(q)
                    q += 1
                if q >= b: raise ExtractError('%s: unterminated fn %s' % (self.rel, name))
                if self._tok(q)[1] == ';':
                    self.items.append(Item('fn', name, ctx, self._tok(start)[2], self._tok(first)[2], None, self._tok(q)[3]))
                    p = q + 1; continue
                close = self._match(q)
                self.items.append(Item('fn', name, ctx, self._tok(start)[2], self._tok(first)[2],
                                       self._tok(q)[2], self._tok(close)[3]))
                p = close + 1
                continue
            if kw in ('struct', 'enum', 'union') and self._tok(p + 1)[0] == 'ident':
                name = self._tok(p + 1)[1]
                q = p + 2
                while q < b and self._tok(q)[1] not in ('{', ';'):
                    if self._tok(q)[1] in ('(', '['):
                        q = self._match(q)
                    q += 1
                if self._tok(q)[1] == '{':
                    q = self._match(q)
                self.items.append(Item(kw, name, ctx, self._tok(start)[2], self._tok(first)[2], None, self._tok(q)[3]))
                p = q + 1
                continue
            # anything else: skip to `;` at depth 0, or a brace group that ends a macro invocation / block item
            q = p
            while q < b:
                s = self._tok(q)[1]
                if s in ('(', '['):
                    q = self._match(q) + 1; continue
                if s == '{':
                    q = self._match(q) + 1
                    # `foo! { .. }` / `macro_rules! x { .. }` end here; `const X: T = S { .. };` continues
                    if q < b and self._tok(q)[1] == ';':
                        q += 1
                        break
                    if kw in ('const', 'static', 'let', 'type', 'use'):
                        continue
                    break
                if s == ';':
                    q += 1; break
                q += 1
            p = max(q, p + 1)

    # --- lookup ---
    def find(self, kind, name, ctx=None, nth=1):
        want = norm(ctx) if ctx not in (None, '-') else None
        hits = [it for it in self.items if it.kind == kind and it.name == name and
                (want is None and (ctx is None or it.ctx == '') or it.ctx == want)]
        if len(hits) < nth or nth < 1:
            ctxs = sorted(set(it.ctx for it in self.items if it.kind == kind and it.name == name))
            raise ExtractError('lost anchor: %s %s in [%s] #%d not found in %s (contexts seen: %s)'
                               % (kind, name, ctx, nth, self.rel, ctxs))
        return hits[nth - 1]

    def line_of(self, off):
        return self.text.count('\n', 0, off) + 1


LOG_MACROS = ('debug', 'trace', 'info', 'warn', 'error')
KEEP_DERIVES = ('PartialEq', 'Eq', 'Clone', 'Copy')


def _retok(text):
    return lex(text)


def transform_code(text):
    """X3 (+X7 visibility) on a code fragment, token based."""
    toks = _retok(text)
    out = []
    k = 0
    n = len(toks)

    def next_sig(j):
        while j < n and toks[j][0] in ('ws', 'lcomment', 'bcomment'):
            j += 1
        return j
    while k < n:
        t = toks[k]
        if t[0] == 'ident' and t[1] == 'coord':
            j = next_sig(k + 1)
            if j < n and toks[j][1] == '!':
                o = next_sig(j + 1)
                if o < n and toks[o][1] in OPEN:
                    c = match_close(toks, o)
                    inner = ''.join(x[1] for x in toks[o + 1:c])
                    out.append('Coord {' + transform_code(inner) + '}')
                    k = c + 1
                    continue
        if t[0] == 'ident' and t[1] in ('assert_eq', 'debug_assert_eq'):
            j = next_sig(k + 1)
            if j < n and toks[j][1] == '!':
                o = next_sig(j + 1)
                if o < n and toks[o][1] in OPEN:
                    c = match_close(toks, o)
                    # split the arguments at top-level commas
                    args, cur, m = [], [], o + 1
                    while m < c:
                        tt = toks[m]
                        if tt[0] == 'punct' and tt[1] in OPEN:
                            e2 = match_close(toks, m)
                            cur.append(''.join(x[1] for x in toks[m:e2 + 1])); m = e2 + 1; continue
                        if tt[1] == ',':
                            args.append(''.join(cur)); cur = []
                        else:
                            cur.append(tt[1])
                        m += 1
                    if ''.join(cur).strip(): args.append(''.join(cur))
                    if len(args) >= 2:
                        out.append('%s!((%s) == (%s))' % (t[1][:-3], transform_code(args[0].strip()), transform_code(args[1].strip())))
                        k = c + 1
                        continue
        if t[0] == 'ident' and t[1] == 'panic':
            j = next_sig(k + 1)
            if j < n and toks[j][1] == '!':
                o = next_sig(j + 1)
                if o < n and toks[o][1] in OPEN:
                    c = match_close(toks, o)
                    inner = [x for x in toks[o + 1:c] if x[0] not in ('ws', 'lcomment', 'bcomment')]
                    if len(inner) > 1:
                        # X12: a formatted panic message needs Display / fmt machinery Verus does not model: the panic is kept,
                        # its message dropped
                        out.append('panic!("(X12: formatted message dropped)")')
                        k = c + 1
                        continue
        if t[0] == 'ident' and t[1] in LOG_MACROS:
            j = next_sig(k + 1)
            if j < n and toks[j][1] == '!':
                o = next_sig(j + 1)
                if o < n and toks[o][1] in OPEN:
                    c = match_close(toks, o)
                    e = next_sig(c + 1)
                    if e < n and toks[e][1] == ';':
                        c = e
                    out.append('/* X3: log macro dropped */')
                    k = c + 1
                    continue
        if t[0] == 'ident' and t[1] == 'pub':
            j = next_sig(k + 1)
            if j < n and toks[j][1] == '(':
                c = match_close(toks, j)
                out.append('pub')
                k = c + 1
                continue
        out.append(t[1])
        k += 1
    return ''.join(out)


def _find_top(toks, start, pred):
    """first token index >= start at bracket depth 0 satisfying pred(tok)."""
    k = start
    n = len(toks)
    while k < n:
        t = toks[k]
        if pred(t):
            return k
        if t[0] == 'punct' and t[1] in OPEN:
            k = match_close(toks, k) + 1
            continue
        k += 1
    return -1


def splice_fn(src, item, ann):
    """Return Verus text for fn `item` of Source `src` with annotations `ann` (dict):
       ret: name for the return value; spec: text placed before the body;
       loops: {n: {'iter': name|None, 'inv': text}}; before/after: [(nth, needle, text)]
       body: False -> drop the body and emit `;`?  (not used: bodies are always kept)
    """
    if item.body_open is None:
        raise ExtractError('%s::%s has no body' % (src.rel, item.name))
    sig = src.text[item.sig_start:item.body_open]
    body = src.text[item.body_open:item.end]
    # ---- signature: X11 `name: impl Bound` in argument position -> a named generic parameter (what the sugar stands for)
    if ann.get('deimpl'):
        sig = deimpl_sig(sig, src, item)
    # ---- signature: X13 a generic parameter is instantiated (the unit verifies the function at that instantiation)
    for (a, b) in ann.get('sigsubst') or []:
        if a not in sig:
            raise ExtractError('lost anchor: %s::%s: signature text %r not found' % (src.rel, item.name, a))
        sig = sig.replace(a, b)
    # ---- signature: named return
    if ann.get('ret'):
        st = _retok(sig)
        # the `->` of the fn itself is at depth 0 after the parameter list
        k = _find_top(st, 0, lambda t: False)  # no-op to keep helper hot
        arrow = -1
        j = 0
        while j < len(st) - 1:
            t = st[j]
            if t[0] == 'punct' and t[1] in OPEN:
                j = match_close(st, j) + 1
                continue
            if t[1] == '<':
                # skip generics: match angle brackets naively at depth 0
                depth, j2 = 0, j
                while j2 < len(st):
                    if st[j2][1] == '<': depth += 1
                    elif st[j2][1] == '>' and st[j2 - 1][1] != '-':
                        depth -= 1
                        if depth == 0: break
                    elif st[j2][0] == 'punct' and st[j2][1] in OPEN:
                        j2 = match_close(st, j2)
                    j2 += 1
                j = j2 + 1
                continue
            if t[1] == '-' and st[j + 1][1] == '>':
                arrow = j
                break
            j += 1
        if arrow < 0:
            raise ExtractError('%s::%s: no return type to name' % (src.rel, item.name))
        w = -1
        j = arrow + 2
        depth = 0
        while j < len(st):
            t = st[j]
            if t[0] == 'punct' and t[1] in OPEN:
                j = match_close(st, j) + 1; continue
            if t[1] == '<': depth += 1
            elif t[1] == '>' and st[j - 1][1] != '-': depth -= 1
            elif t[0] == 'ident' and t[1] == 'where' and depth == 0:
                w = j; break
            j += 1
        a_off = st[arrow + 1][3]
        w_off = st[w][2] if w >= 0 else len(sig)
        rty = sig[a_off:w_off].strip()
        sig = sig[:a_off] + ' (' + ann['ret'] + ': ' + rty + ')\n' + sig[w_off:]
    sig = transform_code(sig)
    # ---- body: loops and anchors (offsets computed on the original body, applied back to front)
    bt = _retok(body)
    edits = []  # (offset, text)
    loops = ann.get('loops') or {}
    loopentry = ann.get('loopentry') or {}
    loopexit = ann.get('loopexit') or {}
    if loops or loopentry or loopexit:
        seen = 0
        for k, t in enumerate(bt):
            if t[0] == 'ident' and t[1] in ('for', 'while', 'loop'):
                # `for<'a>` HRTB is not a loop
                nx = k + 1
                while bt[nx][0] == 'ws': nx += 1
                if t[1] == 'for' and bt[nx][1] == '<':
                    continue
                seen += 1
                if seen in loopexit:
                    ob = _find_top(bt, k + 1, lambda x: x[1] == '{')
                    if ob < 0:
                        raise ExtractError('%s::%s: loop %d has no body' % (src.rel, item.name, seen))
                    edits.append((bt[match_close(bt, ob)][3], '\n' + loopexit[seen].rstrip() + '\n'))
                if seen in loopentry:
                    ob = _find_top(bt, k + 1, lambda x: x[1] == '{')
                    if ob < 0:
                        raise ExtractError('%s::%s: loop %d has no body' % (src.rel, item.name, seen))
                    edits.append((bt[ob][3], '\n' + loopentry[seen].rstrip() + '\n'))
                if seen in loops:
                    spec = loops[seen]
                    ob = _find_top(bt, k + 1, lambda x: x[1] == '{')
                    if ob < 0:
                        raise ExtractError('%s::%s: loop %d has no body' % (src.rel, item.name, seen))
                    edits.append((bt[ob][2], '\n' + spec['inv'].rstrip() + '\n'))
                    if spec.get('iter'):
                        if t[1] != 'for':
                            raise ExtractError('%s::%s: loop %d is not a for loop' % (src.rel, item.name, seen))
                        kin = _find_top(bt, k + 1, lambda x: x[0] == 'ident' and x[1] == 'in')
                        edits.append((bt[kin][3], ' ' + spec['iter'] + ':'))
        missing = [n for n in list(loops) + list(loopentry) + list(loopexit) if n > seen]
        if missing:
            raise ExtractError('lost anchor: %s::%s has %d loops, annotation for loop %s' % (src.rel, item.name, seen, missing))
    for (nname, nret, nspec) in ann.get('nested') or []:
        # a fn item nested in the body: name its return value and splice its contract before its body
        m = re.search(r'\bfn\s+' + re.escape(nname) + r'\b', body)
        if not m:
            raise ExtractError('lost anchor: %s::%s: nested fn %r not found' % (src.rel, item.name, nname))
        ob = body.find('{', m.end())
        ar = body.find('->', m.end(), ob)
        if ob < 0 or ar < 0:
            raise ExtractError('lost anchor: %s::%s: nested fn %r has no `-> T {`' % (src.rel, item.name, nname))
        rty = body[ar + 2:ob].strip()
        edits.append((ob, '\n' + nspec.rstrip() + '\n'))
        edits.append((ar + 2, ' (' + nret + ': ' + rty + ') /*'))
        edits.append((ob - (len(body[ar + 2:ob]) - len(body[ar + 2:ob].rstrip())), '*/'))
    if ann.get('entry'):
        # proof text at the very start of the body: needs no statement anchor, so it survives any rewrite of the body
        assert body[0] == '{'
        edits.append((1, '\n' + ann['entry'].rstrip() + '\n'))
    for where in ('before', 'after'):
        for (nth, needle, text) in ann.get(where) or []:
            pos, cnt, s = -1, 0, 0
            nd = needle
            while True:
                pos = body.find(nd, s)
                if pos < 0: break
                cnt += 1
                if cnt == nth: break
                s = pos + 1
            if pos < 0:
                raise ExtractError('lost anchor: %s::%s: statement anchor %r #%d not found' % (src.rel, item.name, needle, nth))
            off = pos if where == 'before' else pos + len(nd)
            edits.append((off, '\n' + text.rstrip() + '\n'))
    repls = []
    for (nth, needle, params, ret, ctext) in ann.get('closures') or []:
        # X10: an inline closure `|x| expr` gets its parameter / return types and a ghost contract:
        #      `|x: T| -> (r: U) ensures .. { expr }` (the body expression is kept verbatim)
        b1 = needle.find('|'); b2 = needle.find('|', b1 + 1)
        if b1 < 0 or b2 < 0:
            raise ExtractError('bad closure needle %r' % needle)
        expr = needle[b2 + 1:].strip()
        header_only = (expr == '')
        rep = '|%s| -> (%s)\n%s\n{ %s }' % (params, ret, ctext.rstrip(), expr)
        # nth == 0: every occurrence (at least one); otherwise the nth one
        found, st0 = [], 0
        while True:
            pos = body.find(needle, st0)
            if pos < 0: break
            found.append(pos)
            st0 = pos + 1
        def one(pos):
            if not header_only:
                repls.append((pos, pos + len(needle), rep)); return
            # needle is the closure header only: the body is the block that follows (kept verbatim)
            j = pos + len(needle)
            while j < len(body) and body[j] in ' \t\r\n': j += 1
            if j < len(body) and body[j] == '{':
                repls.append((pos, j, '|%s| -> (%s)\n%s\n' % (params, ret, ctext.rstrip())))
                return
            # an expression body: it runs to the `,` or `)` that ends the argument (bracket depth 0)
            tk = _retok(body[j:])
            k2, end = 0, None
            while k2 < len(tk):
                t2 = tk[k2]
                if t2[0] == 'punct' and t2[1] in OPEN:
                    k2 = match_close(tk, k2) + 1; continue
                if t2[1] in (',', ')', ';'):
                    end = j + t2[2]; break
                k2 += 1
            if end is None:
                raise ExtractError('lost anchor: %s::%s: cannot find the end of closure %r' % (src.rel, item.name, needle))
            expr2 = body[j:end].strip()
            repls.append((pos, end, '|%s| -> (%s)\n%s\n{ %s }' % (params, ret, ctext.rstrip(), expr2)))
        if nth <= 0:
            if not found and nth == 0:
                raise ExtractError('lost anchor: %s::%s: closure %r not found' % (src.rel, item.name, needle))
            for pos in found: one(pos)
        else:
            if len(found) < nth:
                raise ExtractError('lost anchor: %s::%s: closure %r #%d not found' % (src.rel, item.name, needle, nth))
            one(found[nth - 1])
    allx = [(o, o, t) for (o, t) in edits] + repls
    for a, b, text in sorted(allx, key=lambda e: (-e[0], -e[1])):
        body = body[:a] + text + body[b:]
    body = transform_code(body)
    spec = ann.get('spec') or ''
    head = '// ---- extracted verbatim from %s:%d (sha256/16 %s) ----\n' % (src.rel, src.line_of(item.sig_start), src.sha)
    return head + sig.rstrip() + '\n' + spec.rstrip() + '\n' + body + '\n'


def deimpl_sig(sig, src, item):
    """rewrite every `impl Bound` argument type of the signature into a fresh generic parameter `ImplN: Bound`"""
    st = _retok(sig)
    # position of the fn name and of its parameter list
    kfn = next(k for k, t in enumerate(st) if t[0] == 'ident' and t[1] == 'fn')
    kname = kfn + 1
    while st[kname][0] == 'ws': kname += 1
    kpar = _find_top(st, kname + 1, lambda t: t[1] == '(')
    if kpar < 0:
        raise ExtractError('%s::%s: no parameter list' % (src.rel, item.name))
    kclose = match_close(st, kpar)
    bounds = []
    edits = []  # (start_off, end_off, text) on sig
    k = kpar + 1
    while k < kclose:
        t = st[k]
        if t[0] == 'ident' and t[1] == 'impl':
            # the bound runs to the next `,` or the closing paren at angle/paren depth 0
            j, depth, ang = k + 1, 0, 0
            while j < kclose:
                u = st[j]
                if u[0] == 'punct' and u[1] in OPEN:
                    j = match_close(st, j) + 1; continue
                if u[1] == '<': ang += 1
                elif u[1] == '>' and st[j - 1][1] != '-': ang -= 1
                elif u[1] == ',' and ang == 0: break
                j += 1
            bound = sig[st[k + 1][2]:st[j - 1][3]].strip().rstrip(',').strip()
            name = 'Impl%d' % len(bounds)
            bounds.append('%s: %s' % (name, bound))
            edits.append((st[k][2], st[j - 1][3], name))
            k = j
            continue
        if t[0] == 'punct' and t[1] in OPEN:
            k = match_close(st, k) + 1; continue
        k += 1
    if not bounds:
        return sig
    # generics: extend an existing `<..>` right after the name, or add one
    kn = kname + 1
    while st[kn][0] == 'ws': kn += 1
    if st[kn][1] == '<':
        # find its closing `>`
        j, ang = kn, 0
        while True:
            if st[j][1] == '<': ang += 1
            elif st[j][1] == '>' and st[j - 1][1] != '-':
                ang -= 1
                if ang == 0: break
            j += 1
        edits.append((st[j][2], st[j][2], ', ' + ', '.join(bounds)))
    else:
        edits.append((st[kname][3], st[kname][3], '<' + ', '.join(bounds) + '>'))
    for a, b, txt in sorted(edits, key=lambda e: -e[0]):
        sig = sig[:a] + txt + sig[b:]
    return sig


def splice_type(src, item):
    """struct/enum definition: keep derive(PartialEq,Eq,Clone,Copy), drop other attrs and default type params."""
    attrs = src.text[item.start:item.sig_start]
    body = src.text[item.sig_start:item.end]
    derives = []
    for m in re.finditer(r'#\[derive\(([^)]*)\)\]', attrs):
        for d in m.group(1).split(','):
            d = d.strip()
            if d in KEEP_DERIVES and d not in derives:
                derives.append(d)
    # drop default type params `= f64` inside the generics of the header
    body = re.sub(r'(<[^<>{}()]*?)\s*=\s*f64\s*>', r'\1>', body, count=1)
    body = transform_code(body)
    # drop field attributes (serde etc.)
    body = re.sub(r'(?m)^\s*#\[[^\]]*\]\s*\n', '', body)
    head = '// ---- extracted verbatim from %s:%d (sha256/16 %s) ----\n' % (src.rel, src.line_of(item.sig_start), src.sha)
    d = ('#[derive(%s)]\n' % ', '.join(derives)) if derives else ''
    return head + d + body + '\n'
