"""Run Kani harnesses of a /repo crate and parse per-harness results (terse output, -j)."""
import os
import re
import subprocess
import time

VERIF = os.path.dirname(os.path.dirname(os.path.abspath(__file__)))
REPO = os.environ.get('GEO_REPO', '/repo')
WORK = os.path.join(VERIF, '.work')
CRATE_DIR = {'geo-types': 'geo-types', 'geo': 'geo'}
PLAYBACK_FILE = {'geo-types': 'geo_types.rs', 'geo': 'geo.rs'}
# harness source files that are included from a hook INSIDE a module (private items): module path of the hook's
# `mod verif`, and their own playback include file
MODPATH = {
    'geomgraph.rs': 'algorithm::relate::geomgraph::verif',
    'c11_private.rs': 'algorithm::line_intersection::verif',
    'c14_utils.rs': 'algorithm::validation::utils::verif',
    'c04_convert.rs': 'algorithm::bool_ops::i_overlay_integration::verif',
    'c09_rdp.rs': 'algorithm::simplify::verif',
    'c09_vw.rs': 'algorithm::simplify_vw::verif',
    'c06.rs': 'algorithm::centroid::verif',
    'c08.rs': 'algorithm::convex_hull::verif',
    'c08_qhull.rs': 'algorithm::convex_hull::qhull::verif',
}


def modpath(srcfile):
    return MODPATH.get(srcfile, 'verif')


def playback_file(crate, srcfile):
    if srcfile in MODPATH:
        return 'pb_' + srcfile
    return PLAYBACK_FILE[crate]



def _env():
    e = dict(os.environ)
    e['GEO_VERIF_DIR'] = VERIF
    e['CARGO_NET_OFFLINE'] = 'true'
    e['CARGO_TARGET_DIR'] = os.path.join(WORK, 'kani-target')
    e.pop('RUSTFLAGS', None)
    return e


def ensure_playback_files():
    d = os.path.join(WORK, 'playback')
    os.makedirs(d, exist_ok=True)
    for f in list(PLAYBACK_FILE.values()) + ['pb_' + k for k in MODPATH]:
        p = os.path.join(d, f)
        if not os.path.exists(p):
            open(p, 'w').write('// concrete playback tests are written here by the runner\n')


def clear_playback(crate, srcfile=None):
    ensure_playback_files()
    open(os.path.join(WORK, 'playback', playback_file(crate, srcfile)), 'w').write('// (empty)\n')


BASE_FLAGS = ['-Z', 'stubbing', '-Z', 'function-contracts', '-Z', 'unstable-options']


def run(crate, harnesses, jobs=8, harness_timeout=300, total_timeout=3600, repo=None, extra=None, srcfiles=None):
    """harnesses: list of exact harness function names (module path `verif::` is added).
    returns {name: {status: ok|fail|timeout|oom|error|missing, failed_checks: [...], checks: n, covers: (sat,total), time_s}} , meta"""
    repo = repo or REPO
    ensure_playback_files()
    cmd = ['cargo', 'kani'] + BASE_FLAGS + ['--harness-timeout', '%ds' % harness_timeout,
                                              '--output-format', 'terse', '-j', str(jobs), '--exact']
    for h in harnesses:
        cmd += ['--harness', modpath((srcfiles or {}).get(h)) + '::' + h]
    cmd += extra or []
    t0 = time.time()
    try:
        p = subprocess.run(cmd, cwd=os.path.join(repo, CRATE_DIR[crate]), env=_env(), capture_output=True,
                           text=True, timeout=total_timeout)
        out = p.stdout + '\n' + p.stderr
        rc = p.returncode
    except subprocess.TimeoutExpired as e:
        out = (e.stdout or b'').decode(errors='replace') if isinstance(e.stdout, bytes) else (e.stdout or '')
        rc = 124
    wall = time.time() - t0
    res = parse(out)
    meta = {'cmd': 'cd %s && GEO_VERIF_DIR=%s %s' % (os.path.join(repo, CRATE_DIR[crate]), VERIF, ' '.join(cmd)),
            'wall_s': wall, 'rc': rc, 'compile_error': None}
    if 'error: could not compile' in out or 'Failed to execute cargo' in out:
        errs = re.findall(r'(?m)^error(?:\[E\d+\])?: .*$', out)
        meta['compile_error'] = '; '.join(errs[:4]) or 'compile error'
    final = {}
    for h in harnesses:
        final[h] = res.get(h) or {'status': 'missing', 'failed_checks': [], 'checks': 0, 'covers': None, 'time_s': 0.0}
    meta['raw_tail'] = out[-3000:]
    return final, meta


def parse(out):
    """terse -j output: `Thread N: Checking harness verif::x...` then later `Thread N: ` + result block.
    Sequential output (no -j): `Checking harness verif::x...` followed by the block."""
    res = {}
    cur_by_thread = {}
    cur = None
    block = []

    def finish(name, lines):
        if not name:
            return
        txt = '\n'.join(lines)
        r = {'status': 'error', 'failed_checks': [], 'checks': 0, 'covers': None, 'time_s': 0.0, 'stubs': []}
        m = re.search(r'\*\* (\d+) of (\d+) failed', txt)
        if m:
            r['checks'] = int(m.group(2))
        m = re.search(r'\*\* (\d+) of (\d+) cover properties satisfied', txt)
        if m:
            r['covers'] = (int(m.group(1)), int(m.group(2)))
        m = re.search(r'Verification Time: ([0-9.]+)s', txt)
        if m:
            r['time_s'] = float(m.group(1))
        fc = re.findall(r'Failed Checks: (.*)\n\s*File: "([^"]*)", line (\d+), in (\S+)', txt)
        r['failed_checks'] = [{'desc': a, 'file': b, 'line': int(c), 'fn': d} for a, b, c, d in fc]
        r['stubs'] = re.findall(r'- Stub: (.*)', txt)
        if 'VERIFICATION:- SUCCESSFUL' in txt:
            r['status'] = 'ok'
        elif 'CBMC timed out' in txt:
            r['status'] = 'timeout'
        elif 'out of memory' in txt:
            r['status'] = 'oom'
        elif 'VERIFICATION:- FAILED' in txt:
            r['status'] = 'fail' if r['failed_checks'] or re.search(r'\*\* [1-9]\d* of \d+ failed', txt) else 'error'
            if any('unwinding assertion' in c['desc'] for c in r['failed_checks']) and \
               all('unwinding assertion' in c['desc'] for c in r['failed_checks']):
                r['status'] = 'unwind'
        # merge (a harness may print stub info in a separate block)
        if name in res and res[name]['status'] != 'error' and r['status'] == 'error':
            res[name]['stubs'] += r['stubs']
        else:
            if name in res:
                r['stubs'] = res[name].get('stubs', []) + r['stubs']
            res[name] = r

    cur_thread = None
    for line in out.split('\n'):
        m = re.match(r'(?:Thread (\d+): )?Checking harness (\S+?)\.\.\.', line)
        if m:
            if cur is not None:
                finish(cur, block)
            block = []
            cur = None
            th = m.group(1)
            name = m.group(2).split('::')[-1]
            if th is None:
                cur = name
            else:
                cur_by_thread[th] = name
            continue
        m = re.match(r'Thread (\d+): ?(.*)$', line)
        if m:
            if cur is not None:
                finish(cur, block)
            cur = cur_by_thread.get(m.group(1))
            block = [m.group(2)]
            continue
        if line.startswith('Manual Harness Summary') or line.startswith('Complete - '):
            if cur is not None:
                finish(cur, block)
            cur, block = None, []
            continue
        if cur is not None:
            block.append(line)
    if cur is not None:
        finish(cur, block)
    return res


def playback_test(crate, harness, harness_timeout=600, repo=None, srcfile=None):
    """re-run one failing harness with concrete playback; returns (test_text or None, raw output)"""
    repo = repo or REPO
    cmd = ['cargo', 'kani'] + BASE_FLAGS + ['-Z', 'concrete-playback', '--concrete-playback=print',
                                              '--harness-timeout', '%ds' % harness_timeout, '--exact',
                                              '--harness', modpath(srcfile) + '::' + harness]
    try:
        p = subprocess.run(cmd, cwd=os.path.join(repo, CRATE_DIR[crate]), env=_env(), capture_output=True, text=True,
                           timeout=harness_timeout + 600)
    except subprocess.TimeoutExpired:
        return None, 'timeout'
    out = p.stdout + '\n' + p.stderr
    m = re.search(r'```\n(.*?)```', out, re.S)
    detail = re.findall(r'(?m)^Check \d+: .*\n\s*- Status: FAILURE\n\s*- Description: .*\n\s*- Location: .*$', out)
    test = m.group(1) if m else None
    if test and '#[test]' in test:
        # drop Kani's doc comment: a multi-line assertion message is only commented on its first line
        test = test[test.index('#[test]'):]
    return test, '\n'.join(detail)[-4000:]


def native_replay(crate, test_text, repo=None, timeout=1200, srcfile=None):
    """write the playback unit test into the guarded include file and run it natively against the real code"""
    repo = repo or REPO
    ensure_playback_files()
    path = os.path.join(WORK, 'playback', playback_file(crate, srcfile))
    open(path, 'w').write(test_text)
    cmd = ['cargo', 'kani', 'playback', '-Z', 'concrete-playback', '--', 'kani_concrete_playback']
    try:
        p = subprocess.run(cmd, cwd=os.path.join(repo, CRATE_DIR[crate]), env=_env(), capture_output=True, text=True, timeout=timeout)
        out = p.stdout + '\n' + p.stderr
    except subprocess.TimeoutExpired:
        out = 'native replay timed out'
    finally:
        clear_playback(crate, srcfile)
    reproduced = bool(re.search(r'test result: FAILED', out)) and 'panicked at' in out
    m = re.search(r"panicked at ([^\n]*)\n([^\n]*)", out)
    return reproduced, (m.group(0) if m else out[-1500:])
