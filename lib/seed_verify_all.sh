#!/bin/bash
# confirm every stored seed in a scratch worktree: demo passes w/o patch, fails with it, existing lib tests unchanged
WT=/tmp/wt_verify
export CARGO_TARGET_DIR=$WT/target
cd $WT || exit 9
for d in /verif/seeded/*/; do
  id=$(basename $d)
  [ -f $d/verified.txt ] && continue
  git checkout -q -- . ; git clean -qfd geo/tests geo-types/tests 2>/dev/null
  CR=geo; grep -q "^diff --git a/geo-types" $d/patch.diff && ! grep -q "^diff --git a/geo/" $d/patch.diff && CR=geo-types
  # the demo goes where its notes say: geo-types seeds use geo-types/tests unless the demo uses the geo crate
  DC=$CR; grep -q "use geo::\|geo::" $d/demo.rs && DC=geo
  mkdir -p $DC/tests; cp $d/demo.rs $DC/tests/seed_demo.rs
  a=$(cargo test --offline -p $DC --test seed_demo 2>&1 | grep -E "^test result" | head -1)
  if ! git apply $d/patch.diff; then echo "$id PATCH-DOES-NOT-APPLY" | tee $d/verified.txt; continue; fi
  b=$(cargo test --offline -p $DC --test seed_demo 2>&1 | grep -E "^test result|error(\[|:)" | head -1)
  rm -f $DC/tests/seed_demo.rs
  c=$(cargo test --offline -p geo --lib 2>&1 | grep -E "^test result" | head -1)
  t=$(cargo test --offline -p geo-types --lib 2>&1 | grep -E "^test result" | head -1)
  git checkout -q -- . ; git clean -qfd geo/tests geo-types/tests 2>/dev/null
  { echo "seed $id (crate patched: $CR, demo run in: $DC)"; echo "demo without patch: $a"; echo "demo with patch:    $b"; echo "geo --lib with patch:       $c   (baseline: 772 passed; 3 failed = the geodesic tests that also fail at HEAD)"; echo "geo-types --lib with patch: $t"; } | tee $d/verified.txt
done
echo ALLDONE
