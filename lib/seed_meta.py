#!/usr/bin/env python3
"""Write seeded/<id>/meta.json from notes.md, verified.txt and the detection table below."""
import json, os, re
HERE = os.path.dirname(os.path.dirname(os.path.abspath(__file__)))
# seed -> (detected?, by which check / obligation, tier, remark)
DET = {
 'C18-1': (True, 'C18', 'c18_k_conv_line_tri', 'quick', ''),
 'C18-2': (True, 'C18', 'c18_k_rect_set_min_total, c18_k_rect_set_max_total (V unit undecided: anchor has_valid_bounds removed by the patch)', 'quick', ''),
 'C18-3': (True, 'C18', 'c18_k_interiors_mut_pop2, c18_k_try_interiors_mut_pop2 (V unit undecided: loop anchor lost)', 'quick', ''),
 'C02-1': (True, 'C02', 'c02_k_line_line', 'quick', ''),
 'C02-2': (True, 'C02', 'c02_k_ring_contains_line_rot_5_1, _5_2 (ring-start invariance)', 'thorough', 'missed by the quick tier'),
 'C02-3': (True, 'C02', 'c02_k_rect_coord (V unit c02_position undecided: statement anchor lost)', 'quick', ''),
 'C11-1': (True, 'C11', 'c11_k_nearest_endpoint_is_argmin', 'quick', 'harness added after the first run missed it'),
 'C11-2': (True, 'C11', 'c02_k_line_line (zero-length receiver)', 'quick', 'harness moved into the C11 quick tier after the first run missed it'),
 'C11-3': (True, 'C11', 'c11_k_classification_lat3', 'quick', ''),
 'C13-1': (True, 'C13', 'c13_k_compose_many_*', 'quick', ''),
 'C13-2': (True, 'C13', 'c13_k_inverse_none_iff_singular, c13_k_inverse_f64_none_iff_singular', 'quick', ''),
 'C13-3': (True, 'C13', 'c06_k_centroid_scales_exactly_by_power_of_two', 'quick', 'harness added after the first run missed it'),
 'C05-1': (True, 'C05', 'c05_k_winding_tri_0_dupclose', 'quick', ''),
 'C05-2': (True, 'C05', 'c05_k_orient_default_ccw_ccw, c05_k_orient_reversed_cw_cw', 'quick', ''),
 'C05-3': (False, 'C05', '', 'quick', 'GeometryCollection::unsigned_area: the recursive Geometry delegation does not finish in CBMC (harness c05_k_geometry_collection_area kept, not registered)'),
 'C06-1': (True, 'C06', 'c06_k_centroid_scales_exactly_by_power_of_two', 'quick', 'harness added after the first run missed it'),
 'C06-2': (True, 'C06', 'c06_k_zero_area_polygon_falls_back_to_outline', 'quick', 'harness made tractable (literal data) after the first run timed out'),
 'C06-3': (True, 'C06', 'c06_k_operation_early_outs', 'quick', ''),
 'C14-1': (True, 'C14', 'c14_k_self_intersection_repeated_start_vertex, _repeated_end_vertex', 'quick', ''),
 'C14-2': (False, 'C14', '', 'quick', 'needs the Validation trait layer (ring role indices): Kani ICE on Validation::check_validation'),
 'C14-3': (False, 'C14', '', 'quick', 'hole-vs-hole check goes through relate (not under contract) and the Validation trait (Kani ICE)'),
 'C15-1': (True, 'C15', 'c15_k_line_interpolation', 'quick', ''),
 'C15-2': (True, 'C15', 'c15_k_densify_linestring_max2/4/16', 'quick', ''),
 'C15-3': (True, 'C15', 'c15_k_line_locate_point', 'quick', 'missed by the first run; harness added afterwards'),
 'C12-1': (True, 'C12', 'c12_k_best_of_two, c12_k_linestring_with_repeated_last_vertex', 'quick', ''),
 'C12-2': (False, 'C12', '', 'quick', 'interior_point (sweep line) is not under contract'),
 'C12-3': (False, 'C12', '', 'quick', 'sweep::proc is not under contract'),
 'C01-1': (True, 'C01', 'Verus obligation C01.V.insert_boundary_point (postcondition: the node toggles between boundary and interior)', 'quick', 'missed by the first run; Verus unit c01_boundary (node map and Label abstract) added afterwards; no K twin: VIOLATION ... no-failing-input-found'),
 'C01-2': (False, 'C01', '', 'quick', 'NodeKey::cmp was put under a Verus contract afterwards (key order = lexicographic order of the coordinate values, Equal exactly for equal values); the seeded body uses total_cmp / then_with, which the unit does not declare, so it ends with a front-end error -> UNDECIDED (exit 2), not a VIOLATION'),
 'C01-3': (True, 'C02', 'Verus obligation C02.V.polygon_position (postcondition `is_inside` may only be set) -- reported by the C02 check; K twin c02_k_polygon_with_hole_pos added afterwards', 'quick', 'the C01 check itself does not cover it'),
 'C03-1': (True, 'C03', 'c03_k_hard_triple_7, c03_k_hard_triple_12 (deceptive literal triples through the real robust kernel)', 'quick', 'missed by the first run (lattice harness timed out -> UNDECIDED); literal ill-conditioned triples added afterwards'),
 'C03-2': (True, 'C03', 'c03_k_hard_triple_* (ring winding order of the literal triples)', 'quick', 'missed by the first run; literal triples added afterwards'),
 'C03-3': (True, 'C03', 'c02_k_tri_intersects_coord', 'quick', 'missed by the first run; harness added to the C03 list afterwards (it was already in C02)'),
 'C04-1': (False, 'C04', '', 'quick', 'unary_union fill-rule selection calls into i_overlay (assumed contract); not under contract'),
 'C04-2': (False, 'C04', '', 'quick', 'boolean_op call site (ContourFilter) is not under contract'),
 'C04-3': (False, 'C04', '', 'quick', 'clip call site flags are not under contract'),
 'C17-1': (False, 'C17', '', 'quick', 'PlanarGraph::clone_for_arg_index is not under contract (CBMC timeout on the node map)'),
 'C17-2': (False, 'C17', '', 'quick', 'prepare_geometry was put under a Verus contract afterwards (cached rectangle = bounding rectangle of the wrapped geometry); the seeded body calls R-tree methods outside the declared callee contracts, so the unit ends with a front-end error -> UNDECIDED (exit 2), not a VIOLATION'),
 'C17-3': (True, 'C17', 'Verus obligation C17.V.prepared_boundary_dimensions (postcondition: answers what the wrapped geometry answers)', 'quick', 'missed by the first run; Verus unit c17_prepared added afterwards (no K twin: VIOLATION ... no-failing-input-found)'),
 'C19-1': (False, 'C19', '', 'quick', 'GeometryCollection::bounding_rect: recursive Geometry delegation does not finish in CBMC'),
 'C19-2': (False, 'C19', '', 'quick', 'missed by the first run; harness c19_k_min_polygon_try_map_error_in_hole was added afterwards, but WITH the seeded change (flat_map over Result) CBMC times out on it, so the check ends UNDECIDED (exit 2), not with a VIOLATION'),
 'C19-3': (False, 'C19', '', 'quick', 'GeometryCollection::exterior_coords_iter: recursive Geometry delegation does not finish in CBMC'),
 'C08-1': (True, 'C08', 'c08_k_quick_hull_menu_0_rot0', 'quick', 'missed by the first run (helpers only); hull contract on literal menus added afterwards'),
 'C08-2': (True, 'C08', 'c08_k_graham_hull_menu_{0,1,5}_rot*', 'quick', 'missed by the first run; hull contract on literal menus added afterwards'),
 'C08-3': (True, 'C08', 'c08_k_quick_hull_large_i64', 'quick', 'missed by the first two runs; large-i64 literal set added afterwards'),
 'C10-1': (False, 'C10', '', 'quick', 'monotone sweep is not under contract'),
 'C10-2': (False, 'C10', '', 'quick', 'Delaunay snapping is not under contract'),
 'C10-3': (False, 'C10', '', 'quick', 'monotone builder is not under contract'),
 'C07-1': (True, 'C07', 'Verus obligation C07.V.polygon_polygon_branches (mirror-image hole branch)', 'quick', 'missed by the first run; Verus unit c07_branches (leaf kernels abstract) added afterwards; no K twin: VIOLATION ... no-failing-input-found'),
 'C07-2': (False, 'C07', '', 'quick', 'nearest_neighbour_distance (R-tree) is not under contract'),
 'C07-3': (True, 'C07', 'c07_k_line_string_contains_point_axis', 'quick', 'missed by the first run; harness added afterwards'),
 'C09-1': (False, 'C09', '', '-', 'C09 is not applicable (no check)'),
 'C09-2': (False, 'C09', '', '-', 'C09 is not applicable (no check)'),
 'C09-3': (False, 'C09', '', '-', 'C09 is not applicable (no check)'),
 'C05-5': (None, 'C03', '', 'quick', 'winding_order on rounded (shifted) coordinates: the C05 check alone passes; reported by the C03 check, where the ill-conditioned orientation / winding-order triples live'),
 'C02-5': (None, 'C02', '', 'thorough', 'missed by the quick tier (ring-start rotations are in the thorough tier)'),
 'C12-4': (None, 'C12', '', 'quick', 'interior_point (scan line / sweep) is not under contract'),
 'C05-6': (True, 'C05', 'Verus obligation C05.V.triangle_signed_area (postconditions: value = half of the shoelace sum of the three sides; sign = sign of that sum), no-failing-input-found', 'quick', 'round 4; Verus unit c05_triangle was written in the same session (before the seed came back); the first run ended UNDECIDED because the seeded change moves the fold closure into the sibling method unsigned_area: the closure-typing hint was made position independent (`//@closure ?`), contracts unchanged; confirmed by running the unit on the patched tree and by the batch run (in the full check the bounded K harness c05_k_rect_tri_collection_area, which contains a clockwise triangle, reports it with a failing input)'),
 'C12-6': (False, 'C12', '', 'quick', 'round 4; Polygon::closest_point is not under contract (Chain<slice::Iter, Once> adaptor: outside Verus); the K harness c12_k_polygon_with_hole_nearest_ring written for it does not finish in 600 s in CBMC and is not registered'),
 'C07-6': (True, 'C07', 'c07_k_line_linestring_last_vertex (assertion Euclidean.distance(&line, &down) == 4.0 fails; 126 s)', 'quick', 'round 4; missed by the first run (no harness for Line x LineString; the fold over `lines()` is an adaptor chain outside Verus); bounded harness on literal shapes added afterwards, run on the patched tree through lib/kshow.py'),
 'C06-4': (None, 'C06', '', 'quick', 'add_ring itself is abstract in the Verus unit (and invisible to exact arithmetic: a rounding threshold); caught by the f64 scaling harness'),
}
OVERRIDE = {}
try:
    OVERRIDE = json.load(open(os.path.join(HERE, 'seeded', 'retest_results.json')))
except Exception:
    pass
RESULTS = {}
try:
    RESULTS = json.load(open(os.path.join(HERE, 'seeded', 'results.json')))
except Exception:
    pass
rows = []
for sid in sorted(os.listdir(os.path.join(HERE, 'seeded'))):
    d = os.path.join(HERE, 'seeded', sid)
    if not os.path.isdir(d) or not os.path.exists(os.path.join(d, 'patch.diff')): continue
    notes = open(os.path.join(d, 'notes.md')).read() if os.path.exists(os.path.join(d, 'notes.md')) else ''
    ver = open(os.path.join(d, 'verified.txt')).read() if os.path.exists(os.path.join(d, 'verified.txt')) else ''
    det = list(DET.get(sid, (None, sid.split('-')[0], '', 'quick', 'not run')))
    if sid in OVERRIDE: det[0] = OVERRIDE[sid]
    if sid in RESULTS:
        # the last batch run of this seed decides (lib/seed_results.py); the hand-written remark is kept
        r = RESULTS[sid]
        det[0], det[1], det[3] = r['detected'], r['prop'], r['tier']
        if r['detected']:
            det[2] = ', '.join(r['violations'][:4]) + (' ...' if len(r['violations']) > 4 else '')
        else:
            det[2] = ''
            if r['rc'] == 2 and r['undecided'] and 'UNDECIDED' not in det[4]:
                det[4] = (det[4] + '; ' if det[4] and det[4] != 'not run' else '') + 'check ends UNDECIDED (exit 2): ' + r['undecided'][0]
            elif det[4] == 'not run':
                det[4] = 'the check passes (exit 0): not detected'
    needs = ''
    m = re.search(r'(?is)(needs?|trigger|what it needs|manifest)[^\n]*\n(.{0,600})', notes)
    if m: needs = re.sub(r'\s+', ' ', m.group(0))[:500]
    meta = {
        'seed': sid, 'breaks_property': sid.split('-')[0],
        'files_touched': re.findall(r'^diff --git a/(\S+)', open(os.path.join(d, 'patch.diff')).read(), re.M),
        'what_it_needs_to_manifest': needs or 'see notes.md',
        'written_by': 'independent sub-agent given only the property text and its own scratch worktree (nothing from /verif)',
        'confirmed_by_me': ver.strip().split('\n'),
        'confirmation_commands': 'in a scratch worktree: cargo test --offline -p <crate> --test seed_demo (without, then with the patch); cargo test --offline -p geo --lib and -p geo-types --lib with the patch (doc tests were run by the sub-agent, not repeated)',
        'detected': det[0], 'checked_under': det[1], 'detected_by': det[2], 'tier': det[3], 'remark': det[4],
    }
    json.dump(meta, open(os.path.join(d, 'meta.json'), 'w'), indent=1)
    rows.append(meta)
json.dump([{k: r[k] for k in ('seed', 'detected', 'checked_under', 'detected_by', 'tier', 'remark')} for r in rows], open(os.path.join(HERE, 'seeded', 'SUMMARY.json'), 'w'), indent=1)
n = len(rows); y = len([r for r in rows if r['detected'] is True]); u = len([r for r in rows if r['detected'] is None])
print('%d seeds, %d detected, %d pending re-test, %d missed' % (n, y, u, n - y - u))

# ---- DESIGN.md table
dp = os.path.join(HERE, 'DESIGN.md')
doc = open(dp).read()
b, e = '<!-- SEEDS-TABLE-BEGIN -->', '<!-- SEEDS-TABLE-END -->'
if b in doc and e in doc:
    lines = ['| seed | detected | by (check: obligation) | tier | remark |', '|---|---|---|---|---|']
    for r in rows:
        d = {True: 'yes', False: 'NO', None: 'pending'}[r['detected']]
        lines.append('| %s | %s | %s%s | %s | %s |' % (r['seed'], d, (r['checked_under'] + ': ') if r['detected_by'] else '', r['detected_by'], r['tier'], r['remark']))
    lines.append('')
    lines.append('Totals: %d seeds, %d detected, %d not detected.' % (n, y, n - y - u) + (' (%d pending)' % u if u else ''))
    doc = doc[:doc.index(b) + len(b)] + '\n' + '\n'.join(lines) + '\n' + doc[doc.index(e):]
    open(dp, 'w').write(doc)
