"""Which contracts decide which property.

Per property:
  verus:  list of unit templates (contracts/verus/<unit>.rs); only functions whose `props` tag
          contains the property id (or all, when the unit is listed with '*') are counted for it
  kani:   list of harness groups: (crate, source file under contracts/kani/<crate>/, regex over harness names,
          kind, tier)  kind: 'complete' (loop-free / finite domain: a proof for the stated domain)
                             'bounded'  (stated bound; never counted as proved)
          tier: 'quick' (run in both tiers) | 'thorough' (only in the thorough tier)
  twins:  {verus obligation id: regex over kani harness names} -- harnesses that can supply a counterexample
"""

PROPS = {
    'C18': {
        'title': 'Structural invariants of the geometry types survive every API history',
        'level': 'proof',
        'verus': ['c18_geo_types'],
        'kani': [
            ('geo-types', 'c18.rs', r'^c18_k_(rect_|conv_|geometry_roundtrip)', 'complete', 'quick'),
            ('geo-types', 'c18.rs', r'^c18_k_(close|polygon_new|exterior_mut|try_exterior_mut|exterior_frame|interiors_mut|try_interiors_mut|interiors_push|history2)', 'bounded', 'quick'),
        ],
        # harness -> the only failed check it may report (a documented rejecting panic of the code under test)
        'allowed_panics': {
            'c18_k_rect_set_min_total': 'RECT_INVALID_BOUNDS_ERROR',
            'c18_k_rect_set_max_total': 'RECT_INVALID_BOUNDS_ERROR',
        },
        'twins': {
            'C18.V.close': r'^c18_k_close',
            'C18.V.is_closed': r'^c18_k_close',
            'C18.V.polygon_new': r'^c18_k_polygon_new',
            'C18.V.exterior_mut': r'^c18_k_exterior_mut',
            'C18.V.try_exterior_mut': r'^c18_k_(try_exterior_mut|history2)',
            'C18.V.interiors_mut': r'^c18_k_interiors_mut',
            'C18.V.try_interiors_mut': r'^c18_k_try_interiors_mut',
            'C18.V.interiors_push': r'^c18_k_interiors_push',
            'C18.V.rect_new': r'^c18_k_rect_new',
            'C18.V.rect_has_valid_bounds': r'^c18_k_rect_set',
            'C18.V.ls_from_line_ref': r'^c18_k_conv_line',
            'C18.V.tri_to_array': r'^c18_k_conv_line',
        },
        'undecided_clauses': [
            'unwinding out of a panicking closure (the invariant is stated for calls that return)',
            'NaN coordinates: a ring whose first coordinate is NaN can never compare closed; finite coordinates are a precondition',
        ],
    },
}

NOT_APPLICABLE = {
    'C16': 'every clause is an identity between compositions of sin/cos/atan2/asin/sqrt/tan/ln in f64 (or calls into geographiclib-rs); Verus leaves float arithmetic uninterpreted and CBMC models libm as nondeterministic, so no contract stronger than "returns an f64" is provable',
    'C20': '2-safety hyper-property over runs, thread-pool sizes and hash seeds; Kani has no threads and compiles RandomState/rayon away, Verus cannot parse the rayon/hashbrown code; no contract within reach can express it',
}
