"""Which contracts decide which property.

Per property:
  verus:  list of unit templates (contracts/verus/<unit>.rs); only functions whose `props` tag
          contains the property id (or all, when the unit is listed with '*') are counted for it
  kani:   list of harness groups: (crate, source file under contracts/kani/<crate>/, regex over harness names,
          kind, tier)  kind: 'complete' (loop-free / finite domain: a proof for the stated domain)
                             'bounded'  (stated bound; never counted as proved)
          tier: 'quick' (run in both tiers) | 'thorough' (only in the thorough tier)
  twins:  {verus obligation id: regex over kani harness names} -- harnesses that can supply a counterexample
"""

HOOK_COMMITS = ['6809889b', '31b7601d', '37d4900d', 'e04b2e2a']

PROPS = {
    'C18': {
        'title': 'Structural invariants of the geometry types survive every API history',
        'level': 'proof',
        'verus': ['c18_geo_types'],
        'kani': [
            ('geo-types', 'c18.rs', r'^c18_k_(rect_|conv_|geometry_roundtrip)', 'complete', 'quick'),
            ('geo-types', 'c18.rs', r'^c18_k_(close|polygon_new|exterior_mut|try_exterior_mut|exterior_frame|interiors_mut|try_interiors_mut|interiors_push|history2)', 'bounded', 'quick'),
        ],
        # harness -> the only failed check it may report (a documented rejecting panic of the code under test)
        'allowed_panics': {
            'c18_k_rect_set_min_total': 'RECT_INVALID_BOUNDS_ERROR',
            'c18_k_rect_set_max_total': 'RECT_INVALID_BOUNDS_ERROR',
        },
        'twins': {
            'C18.V.close': r'^c18_k_close',
            'C18.V.is_closed': r'^c18_k_close',
            'C18.V.polygon_new': r'^c18_k_polygon_new',
            'C18.V.exterior_mut': r'^c18_k_exterior_mut',
            'C18.V.try_exterior_mut': r'^c18_k_(try_exterior_mut|history2)',
            'C18.V.interiors_mut': r'^c18_k_interiors_mut',
            'C18.V.try_interiors_mut': r'^c18_k_try_interiors_mut',
            'C18.V.interiors_push': r'^c18_k_interiors_push',
            'C18.V.rect_new': r'^c18_k_rect_new',
            'C18.V.rect_has_valid_bounds': r'^c18_k_rect_set',
            'C18.V.ls_from_line_ref': r'^c18_k_conv_line',
            'C18.V.tri_to_array': r'^c18_k_conv_line',
            'C18.V.tri_to_lines': r'^c18_k_conv_line',
            'C18.V.line_new': r'^c18_k_conv_line',
            'C18.V.rect_to_lines': r'^c18_k_conv_rect',
        },
        'undecided_clauses': [
            'unwinding out of a panicking closure (the invariant is stated for calls that return)',
            'NaN coordinates: a ring whose first coordinate is NaN can never compare closed; finite coordinates are a precondition',
        ],
    },
}

PROPS['C02'] = {
    'title': 'Intersects/Contains/Within/coordinate_position agree with DE-9IM',
    'level': 'proof',
    'verus': ['c02_ring', 'c02_position', 'c02_intersects', 'c02_multi'],
    'kani': [
        ('geo', 'c02.rs', r'^c02_k_(line_coord|rect_coord|tri_intersects_coord|tri_pos|tri_accumulates|line_line|rect_rect|contains_line_coord|contains_line_line|contains_rect|contains_tri_coord)$', 'complete', 'quick'),
        ('geo', 'c02.rs', r'^c02_k_rect_line$', 'complete', 'thorough'),
        ('geo', 'c02.rs', r'^c02_k_(linestring_pos|polygon_pos|polygon_with_hole_pos|multilinestring_pos)', 'bounded', 'quick'),
        ('geo', 'c02.rs', r'^c02_k_multipolygon_pos_finding', 'bounded', 'thorough'),
        ('geo', 'c02.rs', r'^c02_k_(ls_contains_line|ring_contains_line_rot)', 'bounded', 'thorough'),
        ('geo', 'c02.rs', r'^c02_k_ring_pos_[13]$', 'bounded', 'quick'),
        ('geo', 'c02.rs', r'^c02_k_ring_pos_4$', 'bounded', 'thorough'),
    ],
    'twins': {
        'C02.V.coord_pos_relative_to_ring': r'^c02_k_ring_pos',
        'C02.V.point_in_rect': r'^c02_k_(line_coord|line_line)',
        'C02.V.value_in_between': r'^c02_k_(line_coord|ring_pos)',
        'C02.V.value_in_range': r'^c02_k_(line_coord|ring_pos)',
        'C02.V.rect_position': r'^c02_k_rect_coord',
        'C02.V.polygon_position': r'^c02_k_polygon_(with_hole_)?pos',
        'C02.V.coordinate_position': r'^c02_k_(polygon_(with_hole_)?pos|rect_coord)',
        'C02.V.coord_position': r'^c02_k_line_coord',
        'C02.V.coord_intersects_coord': r'^c02_k_line_coord',
        'C02.V.line_intersects_coord': r'^c02_k_line_coord',
        'C02.V.rect_intersects_coord': r'^c02_k_rect_coord',
        'C02.V.rect_intersects_rect': r'^c02_k_rect_rect',
        'C02.V.rect_contains_coord': r'^c02_k_contains_rect',
        'C02.V.rect_contains_rect': r'^c02_k_contains_rect',
        'C02.V.line_contains_coord': r'^c02_k_contains_line_coord',
        'C02.V.line_contains_line': r'^c02_k_contains_line_line',
        'C02.V.line_intersects_line': r'^c02_k_line_line$',
        'C02.V.rect_intersects_line': r'^c02_k_rect_line',
        'C02.V.line_position': r'^c02_k_line_coord',
        'C02.V.linestring_position': r'^c02_k_linestring_pos',
        'C02.V.multilinestring_position': r'^c02_k_multilinestring_pos_main',
        'C02.V.polygon_intersects_coord': r'^c02_k_polygon_(with_hole_)?pos',
        'C02.V.polygon_contains_coord': r'^c02_k_polygon_(with_hole_)?pos',
    },
    'trusted': ['Verus unit c02_multi: Multi*::iter() twins (members in order) with the std contract of Iterator::any; members own intersects abstract; bounding boxes abstract and their Into<Option<Rect>> conversion a function; NOT proved: disjoint boxes imply no member intersects',
                'assumed contract of the Kernel trait: orient2d returns the exact sign (robust::orient2d for floats; default body verified for integers in C03)',
                'Vec-returning twin of LineString::lines() (element i = Line{start: s[i], end: s[i+1]})',
                'LineString position: the callees bounding_rect (contains every coordinate), Rect x Coord and LineString x Coord intersects are used through ASSUMED contracts (decided elsewhere: c02_intersects, K harnesses c02_k_linestring_pos_*, c19)'],
    'undecided_clauses': [
        'pairs of two extended geometries that are decided through relate (inherit the limits of C01)',
        'Contains/Within impls other than those listed in the evidence',
    ],
}

PROPS['C13'] = {
    'title': 'Affine transforms obey matrix algebra and commute with the algorithms',
    'level': 'proof',
    'verus': ['c13_affine', 'c13_layer', 'c13_ops'],
    'kani': [
        ('geo', 'c13.rs', r'^c13_k_(inverse_none_iff_singular|inverse_f64_none_iff_singular|builders)$', 'complete', 'quick'),
        ('geo', 'c13.rs', r'^c13_k_(inverse_roundtrip|compose_many|inverse_f64_turn|inverse_f64_scale2)', 'bounded', 'quick'),
        ('geo', 'c06.rs', r'^c06_k_centroid_scales_exactly', 'bounded', 'quick'),
    ],
    'twins': {
        'C13.V.compose': r'^c13_k_(compose_many|builders)',
        'C13.V.apply': r'^c13_k_(compose_many|builders)',
        'C13.V.scale': r'^c13_k_builders',
        'C13.V.translate': r'^c13_k_builders',
        'C13.V.identity': r'^c13_k_builders',
        'C13.V.new': r'^c13_k_builders',
    },
    'trusted': ['machine arithmetic treated as mathematical in the Verus unit (exact ring scalar): no overflow / no rounding',
                'sin_cos / tan / to_radians uninterpreted'],
    'undecided_clauses': [
        'commutation of every predicate and measure of the crate with exact similarity maps (only stated as lemmas over the spec functions of C02/C05 where those functions are proved equal to their specs)',
        'AffineTransform::skew: shear shape and fixed origin are proved for whatever values tan returns; that those values are the tangents of the angles is not (trigonometric functions uninterpreted)',
        'Rotate/Scale/Skew/Translate trait layer (unit c13_layer): WHICH matrix about WHICH origin is proved against abstract AffineOps / Centroid / BoundingRect / matrix constructors; AffineOps = map_coords with apply is proved in unit c13_ops (MapCoords abstract, assumed monotone in the coordinate relation); the per-type map_coords impls are under C19',
        'inverse for general float matrices (rounding); only None <=> singular on the lattice and exact cases',
    ],
}

PROPS['C11'] = {
    'title': 'line_intersection classifies and locates segment crossings exactly',
    'level': 'proof',
    'verus': ['c11_classify'],
    'twins': {'C11.V.line_intersection': r'^c11_k_classification', 'C11.V.collinear_intersection': r'^c11_k_classification'},
    'kani': [
        ('geo', 'c11.rs', r'^c11_k_(classification_lat3|order_invariance)$', 'complete', 'quick'),
        ('geo', 'c11_private.rs', r'^c11_k_nearest_endpoint', 'complete', 'quick'),
        ('geo', 'c02.rs', r'^c02_k_line_line$', 'complete', 'quick'),
        ('geo', 'c11.rs', r'^c11_k_classification_lat5$', 'complete', 'thorough'),
    ],
    'trusted': ['Verus unit c11_classify: exact-sign contract of RobustKernel::orient2d, Line::bounding_rect = componentwise min/max, Rect x Rect / Rect x Coord intersects (proved in c02_intersects), proper_intersection abstract; non-degenerate segments; scalars ordered like integers',
                'assumed contract of robust::orient2d (exact sign), stubbed by the shared oracle on the lattice',
                'loop-free harnesses over the whole lattice |c| <= 3 (quick) / 5 (thorough) of integer-valued f64 coordinates: complete for that domain only'],
    'undecided_clauses': [
        'unbounded (Verus) part: that envelope rejection / strict same-side rejection imply the segments share no point is NOT proved in general (two classical facts about crossing segments), only on the lattice by the K harnesses',
        'proper point within a few ulps of the true crossing, and its containment in both envelopes through the real proper_intersection arithmetic (harness c11_k_proper_point_in_envelopes kept, not registered: float products / divisions time out at 900 s)',
        'inputs off the integer lattice (decided only through the opaque-scalar argument of C03)',
        'zero-length segments (excluded by precondition: line_intersection returns a zero-length Collinear for a point on a segment)',
    ],
}

PROPS['C01'] = {
    'title': 'relate() returns the true DE-9IM matrix',
    'level': 'proof',
    'verus': ['c01_boundary', 'c01_nodekey'],
    'kani': [
        ('geo', 'c01.rs', r'^c01_k_', 'complete', 'quick'),
        ('geo', 'geomgraph.rs', r'^c01_k_', 'complete', 'quick'),
    ],
    'trusted': ['only the finite-state components are under contract: IntersectionMatrix cells / masks / setters / compute_disjoint, HasDimensions of the loop-free types, TopologyPosition / Label algebra, Quadrant, edge-end angle order, mod-2 boundary toggle (CoordNode::set_label_boundary, GeometryGraph::insert_boundary_point / determine_boundary: Verus, node map and Label abstract)'],
    'undecided_clauses': [
        'the noded-graph construction (segment intersector, noding, edge-end star labelling) is NOT under contract: "the matrix equals the true matrix for all inputs" is not decided',
        'transposition and representation-independence of the whole pipeline',
    ],
}

PROPS['C17'] = {
    'title': 'PreparedGeometry answers exactly like the plain geometry',
    'level': 'proof',
    'verus': ['c17_prepared'],
    'kani': [
        ('geo', 'geomgraph.rs', r'^c17_k_', 'complete', 'quick'),
    ],
    'trusted': ['the label-swap algebra that PreparedGeometry relies on when a cached graph is reused in the other argument position (finite domain, complete)',
                'Verus unit c17_prepared: PreparedGeometry is a faithful wrapper -- is_empty / dimensions / boundary_dimensions answer what the wrapped geometry answers, bounding_rect returns the cached rectangle, and prepare_geometry caches the wrapped geometry\'s own bounding rectangle; GeometryGraph / GeometryCow are abstract there (assumed: GeometryGraph::new remembers its geometry, build_tree / set_tree / compute_self_nodes do not change it)'],
    'undecided_clauses': [
        'PlanarGraph / GeometryGraph::clone_for_arg_index deep-copy and frame across Rc<RefCell> (CBMC does not finish symbolic execution of the BTreeMap node map within 600 s even for one edge)',
        'equivalence of the R-tree edge-set intersector with the all-pairs intersector; whole-pipeline equality of prepared and plain relate',
    ],
}

PROPS['C03'] = {
    'title': 'Orientation and point-location predicates are exact for all f64 input',
    'level': 'proof',
    'verus': ['c03_kernel', 'c02_ring', 'c02_position', 'c02_intersects'],
    'kani': [
        ('geo', 'c11.rs', r'^c03_k_float_kernel_is_exact$', 'complete', 'quick'),
        ('geo', 'c02.rs', r'^c03_k_simple_kernel_i16$', 'complete', 'quick'),
        ('geo', 'c02.rs', r'^c02_k_(line_coord|tri_pos|contains_tri_coord)$', 'complete', 'quick'),
        ('geo', 'c05.rs', r'^c05_k_winding_tri_(0_none|1_dupclose)$', 'bounded', 'quick'),
        ('geo', 'c11.rs', r'^c03_k_hard_triple_', 'bounded', 'quick'),
        ('geo', 'c02.rs', r'^c02_k_tri_intersects_coord$', 'complete', 'quick'),
    ],
    'twins': {
        'C03.V.kernel_orient2d_default': r'^c03_k_simple_kernel',
        'C02.V.coord_pos_relative_to_ring': r'^c02_k_ring_pos',
    },
    'trusted': ['exactness of robust::orient2d itself (adaptive-precision expansion arithmetic: outside both tools) is an ASSUMED contract',
                'Verus units are verified with the scalar\'s arithmetic left UNINTERPRETED (c02_ring, c02_position): every decision of the ring walk / polygon / rect position code is therefore provably taken from orientation signs and comparisons only, so it is exact whenever the kernel is',
                'c03_kernel: the default (integer) kernel body returns the exact sign under exact ring arithmetic ("products fit")'],
    'undecided_clauses': [
        'robust::orient2d returns the exact sign for all finite f64 (assumed)',
        'off the integer lattice the K harnesses only cover a menu of 13 ill-conditioned literal triples (real robust::orient2d executed, orientation + ring winding order), otherwise the uninterpreted-arithmetic argument',
        'convex hull decision points (qhull / graham) are under C08',
    ],
}

PROPS['C10'] = {
    'title': 'Triangulations and monotone subdivision tile the polygon exactly',
    'level': 'proof',
    'verus': ['c10_earcut_glue'],
    'kani': [],
    'trusted': ['earcutr::earcut is an ASSUMED contract: every returned index addresses a vertex of the flattened input (precondition `indices_ok` of Iter::next)',
                'Polygon::coords_count twin (capacity hint only)'],
    'undecided_clauses': [
        'tiling / disjointness / area of the ear-cut triangles (inside earcutr), constrained and unconstrained Delaunay (inside spade), monotone subdivision sweep and point location, stitching: NOT under contract',
        'decided: the flattening of rings into the earcutr vertex list, the hole start indices, and the decoding of index triples back into polygon vertices ("triangle corners are polygon vertices" given the assumed contract), for all ring lengths and hole counts',
    ],
}

PROPS['C19'] = {
    'title': 'Coordinate traversal, mapping and bounding boxes are mutually consistent',
    'level': 'proof',
    'verus': ['c19_minmax', 'c19_map', 'c19_gc'],
    'kani_extra': ['--no-memory-safety-checks', '--no-overflow-checks', '--no-assertion-reach-checks'],
    'kani': [
        ('geo', 'c19.rs', r'^c19_k_(point_line_rect_triangle|triangle_map_main|triangle_map_finding_reflection|min_polygon_counts|min_polygon_map|min_polygon_try_map_error_in_hole|min_polygon_try_map_error_in_shell|min_polygon_try_map_ok)$', 'bounded', 'quick'),
        ('geo', 'c19.rs', r'^c19_k_linestring$', 'bounded', 'thorough'),
    ],
    'twins': {'C19.V.get_min_max': r'^c19_k_point_line_rect_triangle', 'C19.V.bounding_rect_merge': r'^c19_k_point_line_rect_triangle', 'C19.V.point_map_coords': r'^c19_k_point_line_rect_triangle', 'C19.V.line_map_coords': r'^c19_k_point_line_rect_triangle', 'C19.V.line_map_coords_in_place': r'^c19_k_point_line_rect_triangle', 'C19.V.rect_map_coords': r'^c19_k_point_line_rect_triangle', 'C19.V.linestring_map_coords_in_place': r'^c19_k_linestring'},
    'trusted': ['Verus unit c19_gc: GeometryCollection::iter() twin (yields the members in order), ASSUMED std contract of Iterator::fold for slice::Iter (a chain of accumulators linked by the closure), members own bounding_rect abstract (opaque Geometry enum), bounding_rect_merge contract (proved in c19_minmax); fold closure annotated in place (X10)',
                'Verus unit c19_map: the mapped function is an arbitrary `impl Fn` known only through call_requires / call_ensures (precondition: total); local twin declarations of MapCoords / MapCoordsInPlace carrying the Copy bounds of the impls (X8), impl-Trait arguments desugared to generic parameters (X11); Line::start_point / end_point twins',
                'bounded harnesses use concrete pairwise-distinct coordinates for traversal / mapping code (parametric in the coordinate values) and small concrete container sizes',
                'Kani default memory-safety / overflow checks are switched off for these harnesses (only the contract assertions are checked)'],
    'undecided_clauses': [
        'GeometryCollection and Geometry-enum traversals and try_map error propagation (GeometryCollection::bounding_rect itself is now under a Verus contract, unit c19_gc): CBMC does not finish symbolic execution of the recursive Geometry <-> GeometryCollection delegation within 300-900 s even on two concrete points; NOT under contract',
        'MultiPoint / MultiLineString / MultiPolygon traversals, extremes',
        'map_coords / try_map_coords of LineString, Polygon, Multi*, collections (iterator adaptors: outside Verus; K harnesses on small literals only); Triangle (Triangle::new re-orients: open finding)',
    ],
}

PROPS['C06'] = {
    'title': 'Centroid is the centre of mass of the highest-dimensional part',
    'level': 'proof',
    'verus': ['c06_accum', 'c06_closed'],
    'twins': {'C06.V.wc_add_assign': r'^c06_k_weighted_centroid_algebra', 'C06.V.wc_sub_assign': r'^c06_k_weighted_centroid_algebra',
              'C06.V.op_add_line_string': r'^c06_k_operation_early_outs', 'C06.V.op_add_multi_line_string': r'^c06_k_operation_early_outs',
              'C06.V.op_add_multi_point': r'^c06_k_operation_early_outs', 'C06.V.op_add_polygon': r'^c06_k_zero_area_polygon'},
    'kani': [
        ('geo', 'c06.rs', r'^c06_k_(weighted_centroid_algebra|operation_none_iff_empty|centroid_none_iff_empty)$', 'complete', 'quick'),
        ('geo', 'c06.rs', r'^c06_k_(operation_early_outs|zero_area_polygon|centroid_scales_exactly)', 'bounded', 'quick'),
    ],
    'trusted': ['Verus unit c06_closed: Rect::center (each component = (max + min) / 2 of its axis, the quotient named not evaluated), Centroid for Rect (= that centre as a Point), for Point (= itself) and for Line (= (start + end) / 2 axis by axis, through the real Add / Div<T> impls of Point and Coord); exact ring scalar; the division never panics (floats); twins of Line::start_point / end_point',
                'Verus unit c06_accum: exact ring scalar; derived Ord of Dimensions = declaration order; Line::centroid (proved = the midpoint in unit c06_closed), Euclidean length and the ring formula `add_ring` are abstract (assumed to be functions of their arguments); LineString::lines() twin; the inline closure of centroid_dimensions annotated in place (X10)',
                'f64::hypot is replaced by the model sqrt(a*a + b*b) (the libm function is a foreign call Kani cannot execute)',
                'accumulator algebra: complete over all dimension pairs and finite f64 weights up to 1e100'],
    'undecided_clauses': [
        'numeric clauses: centre of mass within rounding tolerance, convex-hull containment, covariance under translation and uniform scaling, polygon ring formula accuracy',
        'mixed-dimension GeometryCollections through the public API (recursive Geometry enum: neither CBMC nor the Verus unit); the accumulator they feed IS under contract, and the dimension-dominance rule is proved for any sequence of contributions (lemma_fold_dominance)',
        'add_ring (polygon ring formula: iterator fold with closures), add_triangle, the final division accumulated / weight',
    ],
}

PROPS['C08'] = {
    'title': 'Convex hull is the smallest convex polygon containing the input',
    'level': 'proof',
    'verus': ['c01_nodekey', 'c08_partition'],
    'twins': {'C08.V.partition_slice': r'^c08_k_partition_slice$'},
    'kani_extra': ['--no-memory-safety-checks', '--no-overflow-checks', '--no-assertion-reach-checks'],
    'kani': [
        ('geo', 'c08.rs', r'^c08_k_(lex_cmp_and_least_index|swap_with_first_and_remove)$', 'complete', 'quick'),
        ('geo', 'c08.rs', r'^c08_k_partition_slice$', 'bounded', 'quick'),
        ('geo', 'c08.rs', r'^c08_k_(quick|graham)_hull_(menu_|finding_|equidistant|large_i64)', 'bounded', 'quick'),
    ],
    'trusted': ['helpers only: lex_cmp / least_index / least_and_greatest_index (4 lattice points, complete), swap_with_first_and_remove (all indices of a 4-slice), partition_slice (slices <= 5, any threshold predicate)'],
    'undecided_clauses': [
        'the hull postcondition (closed, counter-clockwise, strictly convex, vertices are inputs, contains all inputs, by exact orientation) is decided for quick_hull and graham_hull only on a MENU of 6 literal point sets (duplicates, collinear runs, interior points), each written from 3 start points; for symbolic point sets CBMC runs out of memory or time on sort_unstable_by and the recursive hull_set even with 3-4 points (harnesses c08_k_trivial_hull_3, c08_k_quick_hull_4, c08_k_graham_hull_4 kept, not registered)',
        'minimum_rotated_rect (trigonometry)',
    ],
}

PROPS['C04'] = {
    'title': 'Boolean operations compute the set-theoretic result',
    'level': 'proof',
    'verus': [],
    'kani_extra': ['--no-memory-safety-checks', '--no-overflow-checks', '--no-assertion-reach-checks'],
    'kani': [
        ('geo', 'c04_convert.rs', r'^c04_k_op_type_to_overlay_rule$', 'complete', 'quick'),
        ('geo', 'c04_convert.rs', r'^c04_k_(ring_to_path|polygon_from_shape|line_string_from_path)', 'bounded', 'quick'),
    ],
    'trusted': ['the overlay engine i_overlay is an ASSUMED contract (computes the set operation for implicitly closed paths, outer rings clockwise / holes counter-clockwise)',
                'glue harnesses use concrete pairwise-distinct coordinates (the glue only copies coordinates) and concrete small ring sizes'],
    'undecided_clauses': [
        'point-wise set semantics, area identities, result winding, unary_union fill-rule selection, clip length conservation: all inside or dependent on i_overlay -- NOT decided',
        'decided: ring -> engine path (incl. repeated closing vertices), engine shape -> Polygon (ring order, closure, reversal), OpType -> OverlayRule',
    ],
}

PROPS['C05'] = {
    'title': 'Planar area and ring orientation are exact up to rounding',
    'level': 'proof',
    'verus': ['c05_exact', 'c05_ring', 'c05_polygon', 'c05_triangle'],
    'twins': {'C05.V.twice_signed_ring_area': r'^c05_k_(ring_area|polygon_area)', 'C05.V.polygon_signed_area': r'^c05_k_polygon_area', 'C05.V.multipolygon_signed_area': r'^c05_k_rect_tri_collection_area', 'C05.V.multipolygon_unsigned_area': r'^c05_k_rect_tri_collection_area', 'C05.V.triangle_signed_area': r'^c05_k_rect_tri_collection_area', 'C05.V.triangle_unsigned_area': r'^c05_k_rect_tri_collection_area'},
    'kani_extra': ['--no-memory-safety-checks', '--no-overflow-checks', '--no-assertion-reach-checks'],
    'kani': [
        ('geo', 'c05.rs', r'^c05_k_ring_area_open_', 'complete', 'quick'),
        ('geo', 'c05.rs', r'^c05_k_(polygon_area_|rect_tri_collection_area|orient_default_ccw_ccw|orient_reversed_cw_cw|winding_tri_0_none|winding_tri_0_dupclose)', 'bounded', 'quick'),
        ('geo', 'c05.rs', r'^c05_k_ring_area_closed_3$', 'complete', 'thorough'),
        ('geo', 'c05.rs', r'^c05_k_(orient_default_cw_cw|orient_reversed_ccw_cw|winding_tri_1_dup0|winding_tri_2_dup2|winding_tri_1_dupclose|winding_tri_2_dupclose|make_winding_0)$', 'bounded', 'thorough'),
    ],
    'trusted': ['Verus unit c05_triangle: Area for Triangle (signed = shoelace sum of the three sides / 2, unsigned = its absolute value, sign = sign of the sum) and get_linestring_area (= twice_signed_ring_area / 2): the quotient is named, not evaluated (exact ring scalar has no quotients); ASSUMED: sign law of a division by a positive scalar (ax_div), std contract of Iterator::fold for slice::Iter; Triangle::to_lines twin (proved in c18_geo_types); twice_signed_ring_area twin (proved in c05_ring)',
                'Verus unit c05_polygon: ASSUMED std contract of Iterator::fold for slice::Iter; get_linestring_area abstract (a function of the ring; the halving is a division); fold closures annotated in place (X10); exact ring scalar',
                'Verus unit c05_ring: exact ring scalar (no overflow, no rounding); twins of LineString::lines() and Line::map_coords (contract proved in unit c19_map); the inline closure of the ring walk annotated in place (X10)',
                'ring area / winding order: scalar i16 on the lattice |c| <= 5 (products fit: exact), triangles incl. a repeated vertex anywhere; complete for that lattice',
                'Polygon / Rect / Triangle / MultiPolygon areas and orient: concrete literal shapes (8x8 shell, two holes) at offsets 0 and +-1e8, every listed combination of ring windings; robust::orient2d stubbed by its assumed contract in the orient harnesses'],
    'undecided_clauses': [
        'rounding bound for non-lattice coordinates ("within a few units of rounding")',
        'GeometryCollection areas (recursive Geometry delegation: CBMC timeout); winding_order for rings with more than 3 distinct vertices; GeometryCollection areas beyond the bounded harnesses (map adaptors over the recursive Geometry enum: outside Verus)',
    ],
}

PROPS['C14'] = {
    'title': 'Validation accepts exactly the well-formed geometries',
    'level': 'proof',
    'verus': [],
    'kani_extra': ['--no-memory-safety-checks', '--no-overflow-checks', '--no-assertion-reach-checks'],
    'kani': [
        ('geo', 'c14_utils.rs', r'^c14_k_non_finite_all_f64$', 'complete', 'quick'),
        ('geo', 'c14_utils.rs', r'^c14_k_(too_few_points|self_intersection_|finding_collinear_ring)', 'bounded', 'quick'),
    ],
    'trusted': ['only the per-ring helper checks (non-finite coordinate: complete over all f64 / f32; too-few-points and self-intersection on a menu of literal rings) are under contract',
                'robust::orient2d stubbed by its assumed contract (exact sign) on the integer-valued literals'],
    'undecided_clauses': [
        'the Validation trait layer (is_valid / validation_errors / which ring an error names): Kani 0.68 hits an internal compiler error on Validation::check_validation (Box<dyn FnMut>), so nothing that reaches the trait can be compiled',
        'hole-in-shell, hole-vs-hole and member-vs-member checks (go through relate: C01 assumption); MultiPolygon and the other geometry types',
    ],
}

PROPS['C15'] = {
    'title': 'Interpolation, location and densification agree along a line',
    'level': 'proof',
    'verus': ['c15_interpolate', 'c15_euclid'],
    'kani_extra': ['--no-memory-safety-checks', '--no-overflow-checks', '--no-assertion-reach-checks'],
    'kani': [
        ('geo', 'c15.rs', r'^c15_k_(line_interpolation|densify_linestring_|line_locate_point)', 'bounded', 'quick'),
        ('geo', 'c15.rs', r'^c15_k_linestring_interpolation$', 'bounded', 'thorough'),
    ],
    'trusted': ['Verus unit c15_euclid: Euclidean point_at_ratio_between (= start + (end - start) * t exactly, axis by axis; t = 0 / 1 give the end points) and point_at_distance_between (= start + ((end - start) * d) / hypot(end - start), quotient named not evaluated) through the real Add / Sub / Mul<T> / Div<T> impls of Point and Coord; exact ring scalar, hypot abstract, the division never panics (floats)',
                'Verus unit c15_interpolate (unbounded, any metric space satisfying the trait contracts, exact ring scalar): clamping of the four Line forms; LineString::point_at_distance_from_start is the arc-length walk for every length of line string (None exactly for the empty one)',
                'the generic interpolation / densification code is instantiated with an ABSTRACT exact metric on the x-axis (AxisMetric): what is decided is the walk / clamping / duality / vertex-preservation logic for every metric space satisfying the trait contracts, not the Euclidean, Haversine, geodesic or rhumb kernels',
                'bounded: Line (all integer end points in [-8,8], distances on the half-integer grid in [-4,24]); 3-vertex LineString incl. repeated vertices and back-tracking (thorough); densify of a fixed 4-vertex polyline with max in {2,4,16}'],
    'undecided_clauses': [
        'LineString::line_locate_point; rounding behaviour for general f64 ratios; the concrete metric spaces; Polygon / Rect / Triangle densify (Line::line_locate_point IS decided for axis-parallel lattice lines, incl. scale 2^-40)',
    ],
}

PROPS['C12'] = {
    'title': 'Closest and interior points lie on the geometry',
    'level': 'proof',
    'verus': ['c12_closest', 'c12_closest_of'],
    'twins': {'C12.V.best_of_two': r'^c12_k_best_of_two$', 'C12.V.point_closest_point': r'^c12_k_point_and_axis_line$', 'C12.V.line_closest_point': r'^c12_k_point_and_axis_line$'},
    'kani_extra': ['--no-memory-safety-checks', '--no-overflow-checks', '--no-assertion-reach-checks'],
    'kani': [
        ('geo', 'c12.rs', r'^c12_k_(best_of_two|point_and_axis_line)$', 'complete', 'quick'),
        ('geo', 'c12.rs', r'^c12_k_linestring_with_repeated_last_vertex$', 'bounded', 'quick'),
    ],
    'trusted': ['Verus unit c12_closest_of: `closest_of` verified at the instantiation I = &Vec<C> (X13: Verus cannot iterate over an abstract IntoIterator; the body is verbatim), for any number of parts and any part type with a closest_point contract; best_of_two twin (contract proved in c12_closest); abstract point-point distance',
                'Verus unit c12_closest: assumed contracts of Euclidean point-point distance / line length (zero exactly for coincident end points), of Line/Rect/Triangle intersects Point (proved separately in c02_intersects), of the generic fold closest_of; scalar division: only quotient < 0 iff numerator < 0 and quotient > 1 iff numerator > divisor (positive divisor) are assumed; exact-ring scalar whose values are ordered like integers',
                'f64::hypot modelled (exact on axis-parallel arguments), robust::orient2d stubbed by its assumed contract',
                'complete only for the stated lattice: Closest variants x points on the x-axis in [-6,6]; Point and axis-parallel Line against every lattice query point in [-6,6]^2'],
    'undecided_clauses': [
        'interior_point (sweep-line based) is NOT under contract',
        'closest_point for Polygon / Multi* / GeometryCollection / LineString (the iterator chains that FEED `closest_of`; the fold `closest_of` itself is proved, at a Vec instantiation, in unit c12_closest_of); for Rect / Triangle only the branch structure is proved (Intersection(p) exactly on the intersects branch) (harness c12_k_rect_intersection_iff_intersects is kept but times out at 600 s), slanted lines, distance minimality within tolerance',
    ],
}

PROPS['C07'] = {
    'title': 'Euclidean distance is the true minimum distance',
    'level': 'proof',
    'verus': ['c07_branches', 'c07_segment', 'c07_lines'],
    'twins': {'C07.V.line_segment_distance': r'^c07_k_(point_point_row|point_axis_line|line_string_contains_point_axis)', 'C07.V.line_line_distance': r'^c07_k_line_linestring_last_vertex$'},
    'kani_extra': ['--no-memory-safety-checks', '--no-overflow-checks', '--no-assertion-reach-checks'],
    'kani': [
        ('geo', 'c07.rs', r'^c07_k_(point_point_row|line_string_contains_point_axis)$', 'bounded', 'quick'),
        ('geo', 'c07.rs', r'^c07_k_line_linestring_last_vertex$', 'bounded', 'quick'),
        ('geo', 'c02.rs', r'^c02_k_(line_coord|line_line)$', 'complete', 'quick'),
        ('geo', 'c07.rs', r'^c07_k_point_axis_line$', 'bounded', 'thorough'),
    ],
    'trusted': ['Verus unit c07_lines: branch structure of Line x Line (0 when the segments intersect, else the minimum over all four end-point-to-segment distances), LineString x LineString (0 / nearest-neighbour distance) and LineString x Polygon (0 / minimum over ALL hole rings when the first vertex is strictly inside the shell of a polygon with holes / distance to the shell; precondition: non-empty line string, the FIXME of the source) with the leaf kernels abstract: the intersects impls, point-to-segment distance (unit c07_segment), ring_contains_coord, nearest_neighbour_distance (R-tree), scalar min / max_value; twins of Line::start_point / end_point',
                'Verus unit c07_segment: exact ring scalar; hypot abstract (a function of its arguments); of a quotient only its position relative to 0 and 1 is assumed (positive divisor)',
                'Verus unit c07_branches: which candidate set Polygon x Polygon distance minimises over (0 when they intersect; the hole rings when one operand sits inside the other\'s shell -- both mirror images; shell to shell otherwise) for any number of holes, with the leaf kernels (intersects, strictly-inside-ring, ring-to-ring nearest-neighbour distance, scalar min / max_value) abstract',
                'very partial otherwise: exact distance, zero-iff-equal and operand-order / typing invariance for points on one lattice row (quick) and point x axis-parallel segment (thorough), with f64::hypot modelled exactly on axis-parallel arguments',
                'the "exactly zero precisely when the geometries intersect" clause rests on the `intersects` early-outs of the distance impls: the segment kernels they call (Line x Coord, Line x Line) are decided completely on the lattice by the C02 harnesses listed here'],
    'undecided_clauses': [
        'numeric minimality within rounding tolerance (float error analysis; sqrt makes every distance symbolic for SAT: general-position harnesses time out at 900 s)',
        'every pair that uses the R-tree nearest-neighbour search (LineString / Polygon pairs), hole-containment branch selection, wrapper invariance (Rect / Triangle / Multi* / Geometry enum / GeometryCollection)',
    ],
}

NOT_APPLICABLE = {
    'C16': 'every clause is an identity between compositions of sin/cos/atan2/asin/sqrt/tan/ln in f64 (or calls into geographiclib-rs); Verus leaves float arithmetic uninterpreted and CBMC models libm as nondeterministic, so no contract stronger than "returns an f64" is provable',
    'C09': 'no contract within reach decides it: Verus cannot take compute_rdp / visvalingam (chains of provided iterator adaptors - enumerate, take, skip, map - to which Verus cannot attach specifications; BinaryHeap; R-tree); Kani/CBMC does not finish symbolic execution of simplify on a 3-vertex line string even with a concrete tolerance (measured: > 900 s; the sqrt inside the distance kernel makes every distance symbolic and the recursion then runs over slices of symbolic length). The attempted contract is kept in contracts/kani/geo/c09_rdp.rs',
    'C20': '2-safety hyper-property over runs, thread-pool sizes and hash seeds; Kani has no threads and compiles RandomState/rayon away, Verus cannot parse the rayon/hashbrown code; no contract within reach can express it',
}
