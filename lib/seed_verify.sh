#!/bin/bash
# usage: seed_verify.sh <worktree> <seed dir> <crate: geo|geo-types> 
# confirms: demo passes without patch, fails with patch, existing lib tests unchanged with patch
WT=$1; SD=$2; CR=$3
export CARGO_TARGET_DIR=$WT/target
cd $WT || exit 9
git checkout -q -- . ; mkdir -p $CR/tests; cp $SD/demo.rs $CR/tests/seed_demo.rs
echo "--- without patch: demo"
cargo test --offline -p $CR --test seed_demo 2>&1 | grep -E "^test result|error(\[|:)" | head -3
git apply $SD/patch.diff || { echo "PATCH DOES NOT APPLY"; exit 8; }
echo "--- with patch: demo"
cargo test --offline -p $CR --test seed_demo 2>&1 | grep -E "^test result|error(\[|:)" | head -3
echo "--- with patch: existing tests (lib + doc of $CR)"
rm -f $CR/tests/seed_demo.rs
cargo test --offline -p $CR 2>&1 | grep -E "^test result|FAILED|^error" | head -12
git checkout -q -- . ; rmdir $CR/tests 2>/dev/null
echo "--- done"
