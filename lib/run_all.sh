#!/bin/bash
# usage: lib/run_all.sh <tier>   -- run every claimed check once, print one line each
for p in C01 C02 C03 C04 C05 C06 C07 C08 C10 C11 C12 C13 C14 C15 C17 C18 C19; do
  ./check $p --tier $1 > runall_$p.log 2>&1; rc=$?
  echo "RUNALL $p tier=$1 rc=$rc $(tail -1 runall_$p.log)"
  grep -E "^UNDECIDED|^VIOLATION" runall_$p.log | head -4
done
