// ======================================================================================
// C18 -- structural invariants of the geometry types.  K twins of the Verus unit
// c18_geo_types (BOUNDED: ring lengths and closure menu enumerated concretely, coordinates
// symbolic) and K-complete harnesses for the loop-free Rect / conversion code.
// ======================================================================================

/// A mutator closure body: one of a menu of edits (concrete op, symbolic operands and result).
#[cfg(kani)]
#[derive(Clone, Copy)]
pub(crate) struct Edit { op: u8, idx: usize, c: Coord<i32>, fail: bool }

#[cfg(kani)]
pub(crate) const N_OPS: u8 = 6;

#[cfg(kani)]
impl Edit {
    fn with_op(op: u8) -> Self {
        let e = Edit { op, idx: kani::any(), c: any_coord_i32(), fail: kani::any() };
        kani::assume(e.idx < 4);
        e
    }
    fn apply(&self, ls: &mut LineString<i32>) -> Result<(), u8> {
        match self.op {
            0 => ls.0.push(self.c),
            1 => { ls.0.pop(); }
            2 => ls.0.clear(),
            3 => { if self.idx < ls.0.len() { ls.0[self.idx] = self.c; } }
            4 => ls.0.truncate(self.idx),
            _ => {}
        }
        if self.fail { Err(self.op) } else { Ok(()) }
    }
    /// edits ring 0 of the slice (concrete index: a symbolic index into a slice of Vecs is intractable for CBMC)
    fn apply_slice(&self, rings: &mut [LineString<i32>]) -> Result<(), u8> {
        let k = 0;
        if self.op == 5 && rings.len() == 2 {
            rings.swap(0, 1);
            return if self.fail { Err(5) } else { Ok(()) };
        }
        if k < rings.len() { self.apply(&mut rings[k]) } else if self.fail { Err(9) } else { Ok(()) }
    }
}

#[cfg(kani)]
fn polygon_wf(p: &Polygon<i32>) -> bool {
    let mut ok = ring_closed(p.exterior());
    let mut i = 0;
    while i < p.interiors().len() {
        ok = ok && ring_closed(&p.interiors()[i]);
        i += 1;
    }
    ok
}

#[cfg(kani)]
fn same_ring(a: &LineString<i32>, b: &LineString<i32>) -> bool {
    if a.0.len() != b.0.len() { return false; }
    let mut i = 0;
    let mut ok = true;
    while i < a.0.len() {
        ok = ok && a.0[i] == b.0[i];
        i += 1;
    }
    ok
}

/// interiors of configuration `cfg`: 0 => none, 1 => one ring of 2 coords, 2 => rings of 0 and 3 coords
#[cfg(kani)]
fn interiors_cfg(cfg: u8) -> Vec<LineString<i32>> {
    let mut v = Vec::with_capacity(4);
    if cfg == 1 { v.push(ring_i32(2)); }
    if cfg == 2 { v.push(ring_i32(0)); v.push(ring_i32(3)); }
    v
}

// Harness bodies take CONCRETE sizes / menu entries; one #[kani::proof] per combination is
// generated below so that each SAT instance stays small (seconds) and they run in parallel.
#[cfg(kani)]
macro_rules! k_harness {
    ($name:ident, $body:ident ( $($arg:expr),* )) => {
        #[cfg(kani)]
        #[kani::proof]
        #[kani::unwind(8)]
        fn $name() { $body($($arg),*); }
    };
}

// ---- LineString::close: whole-view contract -------------------------------------------
#[cfg(kani)]
fn body_close(n: usize) {
    let mut ls = ring_i32(n);
    let before = ring_i32(n);
    let mut i = 0;
    while i < n { kani::assume(before.0[i] == ls.0[i]); i += 1; }
    let was_closed = ring_closed(&before);
    ls.close();
    assert!(ring_closed(&ls));
    assert!(ls.is_closed());
    if was_closed {
        assert!(same_ring(&ls, &before));
    } else {
        assert!(ls.0.len() == n + 1);
        let mut i = 0;
        while i < n { assert!(ls.0[i] == before.0[i]); i += 1; }
        assert!(ls.0[n] == before.0[0]);
    }
    kani::cover!(n == 0 || n == 1 || was_closed, "already closed");
    kani::cover!(n <= 1 || !was_closed, "needed closing");
}
k_harness!(c18_k_close_0, body_close(0));
k_harness!(c18_k_close_1, body_close(1));
k_harness!(c18_k_close_2, body_close(2));
k_harness!(c18_k_close_3, body_close(3));
k_harness!(c18_k_close_4, body_close(4));

// ---- Polygon::new --------------------------------------------------------------------
#[cfg(kani)]
fn body_polygon_new(n: usize, cfg: u8) {
    let p = Polygon::new(ring_i32(n), interiors_cfg(cfg));
    assert!(polygon_wf(&p));
    kani::cover!(p.exterior().0.len() == n + 1 || n < 2, "exterior got closed");
}
k_harness!(c18_k_polygon_new_0_0, body_polygon_new(0, 0));
k_harness!(c18_k_polygon_new_2_2, body_polygon_new(2, 2));
k_harness!(c18_k_polygon_new_3_1, body_polygon_new(3, 1));

// ---- exterior_mut / try_exterior_mut: menu closure, both results ------------------
#[cfg(kani)]
fn body_exterior_mut(n: usize, op: u8) {
    let mut p = Polygon::new(ring_i32(n), interiors_cfg(0));
    let e = Edit::with_op(op);
    p.exterior_mut(|ls| { let _ = e.apply(ls); });
    assert!(polygon_wf(&p));
    assert!(p.interiors().is_empty());
}
k_harness!(c18_k_exterior_mut_2_push, body_exterior_mut(2, 0));
k_harness!(c18_k_exterior_mut_2_pop, body_exterior_mut(2, 1));
k_harness!(c18_k_exterior_mut_3_set, body_exterior_mut(3, 3));
k_harness!(c18_k_exterior_mut_3_trunc, body_exterior_mut(3, 4));

#[cfg(kani)]
fn body_try_exterior_mut(n: usize, op: u8) {
    let mut p = Polygon::new(ring_i32(n), interiors_cfg(0));
    let e = Edit::with_op(op);
    let r = p.try_exterior_mut(|ls| e.apply(ls));
    // the ring invariant must hold on BOTH exits
    assert!(polygon_wf(&p));
    assert!(p.interiors().is_empty());
    assert!(r.is_err() == e.fail);
    kani::cover!(r.is_err(), "Err exit");
    kani::cover!(r.is_ok(), "Ok exit");
}
k_harness!(c18_k_try_exterior_mut_2_push, body_try_exterior_mut(2, 0));
k_harness!(c18_k_try_exterior_mut_2_pop, body_try_exterior_mut(2, 1));
k_harness!(c18_k_try_exterior_mut_3_pop, body_try_exterior_mut(3, 1));
k_harness!(c18_k_try_exterior_mut_2_clear, body_try_exterior_mut(2, 2));
k_harness!(c18_k_try_exterior_mut_3_set, body_try_exterior_mut(3, 3));
k_harness!(c18_k_try_exterior_mut_3_trunc, body_try_exterior_mut(3, 4));

/// frame: editing the exterior leaves the holes alone
#[cfg(kani)]
fn body_exterior_frame(op: u8) {
    let mut p = Polygon::new(ring_i32(2), interiors_cfg(1));
    let h0 = p.interiors()[0].0[0];
    let h1 = p.interiors()[0].0[1];
    kani::assume(h0 != h1);           // so the hole was closed to 3 coordinates
    let e = Edit::with_op(op);
    let _ = p.try_exterior_mut(|ls| e.apply(ls));
    assert!(p.interiors().len() == 1 && p.interiors()[0].0.len() == 3);
    assert!(p.interiors()[0].0[0] == h0 && p.interiors()[0].0[1] == h1);
}
k_harness!(c18_k_exterior_frame_pop, body_exterior_frame(1));

/// interiors_mut / try_interiors_mut, minimal closure: pop the closing coordinate of hole 0
/// (the Edit menu over `&mut [LineString]` is intractable for CBMC here: > 200 s per entry).
#[cfg(kani)]
fn body_try_interiors_mut_pop(n: usize) {
    let mut holes = Vec::with_capacity(2);
    holes.push(ring_i32(n));
    let mut p = Polygon::new(ring_i32(0), holes);
    let fail: bool = kani::any();
    let r = p.try_interiors_mut(|rings| { rings[0].0.pop(); if fail { Err(()) } else { Ok(()) } });
    assert!(p.interiors().len() == 1);
    assert!(ring_closed(&p.interiors()[0]));
    kani::cover!(r.is_err(), "Err exit");
    kani::cover!(r.is_ok(), "Ok exit");
}
k_harness!(c18_k_try_interiors_mut_pop_2, body_try_interiors_mut_pop(2));
k_harness!(c18_k_try_interiors_mut_pop_3, body_try_interiors_mut_pop(3));

#[cfg(kani)]
fn body_interiors_mut_pop(n: usize) {
    let mut holes = Vec::with_capacity(2);
    holes.push(ring_i32(n));
    let mut p = Polygon::new(ring_i32(0), holes);
    p.interiors_mut(|rings| { rings[0].0.pop(); });
    assert!(p.interiors().len() == 1);
    assert!(ring_closed(&p.interiors()[0]));
}
k_harness!(c18_k_interiors_mut_pop_2, body_interiors_mut_pop(2));

/// two holes, both opened by the closure (every ring must be re-closed, not only the first open one)
#[cfg(kani)]
fn body_interiors_mut_pop2(fallible: bool) {
    let mut holes = Vec::with_capacity(2);
    holes.push(ring_i32(2));
    holes.push(ring_i32(2));
    let mut p = Polygon::new(ring_i32(0), holes);
    if fallible {
        let fail: bool = kani::any();
        let _ = p.try_interiors_mut(|rings| { rings[0].0.pop(); rings[1].0.pop(); if fail { Err(()) } else { Ok(()) } });
    } else {
        p.interiors_mut(|rings| { rings[0].0.pop(); rings[1].0.pop(); });
    }
    assert!(p.interiors().len() == 2);
    assert!(ring_closed(&p.interiors()[0]));
    assert!(ring_closed(&p.interiors()[1]));
}
k_harness!(c18_k_interiors_mut_pop2, body_interiors_mut_pop2(false));
k_harness!(c18_k_try_interiors_mut_pop2, body_interiors_mut_pop2(true));

#[cfg(kani)]
fn body_interiors_push(n: usize) {
    let mut p = Polygon::new(ring_i32(2), interiors_cfg(1));
    let e0 = p.exterior().0[0];
    let h0 = p.interiors()[0].0[0];
    kani::assume(p.exterior().0.len() == 3 && p.interiors()[0].0.len() == 3);
    let ring = ring_i32(n);
    let first = if n > 0 { Some(ring.0[0]) } else { None };
    let was_closed = ring_closed(&ring);
    p.interiors_push(ring);
    assert!(polygon_wf(&p));
    assert!(p.exterior().0.len() == 3 && p.exterior().0[0] == e0);
    assert!(p.interiors().len() == 2);
    assert!(p.interiors()[0].0.len() == 3 && p.interiors()[0].0[0] == h0);
    assert!(p.interiors()[1].0.len() == if was_closed { n } else { n + 1 });
    if let Some(f) = first { assert!(p.interiors()[1].0[0] == f); }
}
k_harness!(c18_k_interiors_push_0, body_interiors_push(0));
k_harness!(c18_k_interiors_push_2, body_interiors_push(2));
k_harness!(c18_k_interiors_push_3, body_interiors_push(3));

// ---- a bounded API history: two mutator calls (failing pops), ordered pairs of entry points ----
#[cfg(kani)]
fn body_history2(w1: u8, w2: u8) {
    let mut p = Polygon::new(ring_i32(2), interiors_cfg(1));
    let mut step = 0;
    while step < 2 {
        let which = if step == 0 { w1 } else { w2 };
        let e = Edit::with_op(1);
        match which {
            0 => p.exterior_mut(|ls| { let _ = e.apply(ls); }),
            1 => { let _ = p.try_exterior_mut(|ls| e.apply(ls)); }
            2 => p.interiors_mut(|r| { let _ = e.apply_slice(r); }),
            _ => { let _ = p.try_interiors_mut(|r| e.apply_slice(r)); }
        }
        assert!(polygon_wf(&p));
        step += 1;
    }
}
k_harness!(c18_k_history2_1_0, body_history2(1, 0));

// ---- Rect: complete over all i32 and all non-NaN f64 --------------------------------------
#[cfg(kani)]
#[kani::proof]
fn c18_k_rect_new_i32() {
    let a = any_coord_i32();
    let b = any_coord_i32();
    let r = Rect::new(a, b);
    assert!(r.min().x <= r.max().x && r.min().y <= r.max().y);
    assert!((r.min().x == a.x && r.max().x == b.x) || (r.min().x == b.x && r.max().x == a.x));
    assert!((r.min().y == a.y && r.max().y == b.y) || (r.min().y == b.y && r.max().y == a.y));
    kani::cover!(a.x > b.x && a.y < b.y, "mixed corner order");
}

#[cfg(kani)]
#[kani::proof]
fn c18_k_rect_new_f64() {
    let a = Coord { x: kani::any::<f64>(), y: kani::any::<f64>() };
    let b = Coord { x: kani::any::<f64>(), y: kani::any::<f64>() };
    kani::assume(!a.x.is_nan() && !a.y.is_nan() && !b.x.is_nan() && !b.y.is_nan());
    let r = Rect::new(a, b);
    assert!(r.min().x <= r.max().x && r.min().y <= r.max().y);
    assert!((r.min().x == a.x && r.max().x == b.x) || (r.min().x == b.x && r.max().x == a.x));
    assert!((r.min().y == a.y && r.max().y == b.y) || (r.min().y == b.y && r.max().y == a.y));
}

/// set_min / set_max return only when the invariant holds ...
#[cfg(kani)]
#[kani::proof]
fn c18_k_rect_set_ok() {
    let mut r = Rect::new(any_coord_i32(), any_coord_i32());
    let c = any_coord_i32();
    let which: bool = kani::any();
    if which {
        kani::assume(c.x <= r.max().x && c.y <= r.max().y);
        let max = r.max();
        r.set_min(c);
        assert!(r.min() == c && r.max() == max);
    } else {
        kani::assume(r.min().x <= c.x && r.min().y <= c.y);
        let min = r.min();
        r.set_max(c);
        assert!(r.max() == c && r.min() == min);
    }
    assert!(r.min().x <= r.max().x && r.min().y <= r.max().y);
}

/// ... for EVERY argument: whenever set_min / set_max return, the invariant holds.  Kani reports the
/// rejecting panic of `assert_valid_bounds` as a failed check; the runner accepts exactly that
/// check (registry `allowed_panics`) and nothing else, so a call that returns with min > max fails
/// the assertion below.
#[cfg(kani)]
#[kani::proof]
fn c18_k_rect_set_min_total() {
    let mut r = Rect::new(any_coord_i32(), any_coord_i32());
    let c = any_coord_i32();
    let max = r.max();
    r.set_min(c);
    assert!(r.min().x <= r.max().x && r.min().y <= r.max().y);
    assert!(r.min() == c && r.max() == max);
}

#[cfg(kani)]
#[kani::proof]
fn c18_k_rect_set_max_total() {
    let mut r = Rect::new(any_coord_i32(), any_coord_i32());
    let c = any_coord_i32();
    let min = r.min();
    r.set_max(c);
    assert!(r.min().x <= r.max().x && r.min().y <= r.max().y);
    assert!(r.max() == c && r.min() == min);
}

// ---- conversions preserve coordinates and order (loop-free, all i32) ------------------------
#[cfg(kani)]
#[kani::proof]
#[kani::unwind(8)]
fn c18_k_conv_line_tri() {
    let a = any_coord_i32();
    let b = any_coord_i32();
    let c = any_coord_i32();
    let l = Line::new(a, b);
    assert!(l.start == a && l.end == b);
    let ls: LineString<i32> = l.into();
    assert!(ls.0.len() == 2 && ls.0[0] == a && ls.0[1] == b);
    let ls2: LineString<i32> = (&l).into();
    assert!(ls2.0.len() == 2 && ls2.0[0] == a && ls2.0[1] == b);
    let t = Triangle(a, b, c);
    assert!(t.to_array() == [a, b, c]);
    let tl = t.to_lines();
    assert!(tl[0].start == a && tl[0].end == b && tl[1].start == b && tl[1].end == c && tl[2].start == c && tl[2].end == a);
    let tp = t.to_polygon();
    assert!(tp.interiors().is_empty());
    assert!(tp.exterior().0.len() == 4);
    assert!(tp.exterior().0[0] == a && tp.exterior().0[1] == b && tp.exterior().0[2] == c && tp.exterior().0[3] == a);
    let tp2: Polygon<i32> = t.into();
    assert!(tp2.interiors().is_empty() && same_ring(tp2.exterior(), tp.exterior()));
}

#[cfg(kani)]
#[kani::proof]
#[kani::unwind(8)]
fn c18_k_conv_rect() {
    let a = any_coord_i32();
    let b = any_coord_i32();
    let r = Rect::new(a, b);
    let (mn, mx) = (r.min(), r.max());
    let rp = r.to_polygon();
    assert!(rp.interiors().is_empty() && rp.exterior().0.len() == 5);
    let e = &rp.exterior().0;
    assert!(e[0] == Coord { x: mx.x, y: mn.y } && e[1] == mx && e[2] == Coord { x: mn.x, y: mx.y } && e[3] == mn && e[4] == e[0]);
    let rp2: Polygon<i32> = r.into();
    let e2 = &rp2.exterior().0;
    assert!(rp2.interiors().is_empty() && e2.len() == 5);
    assert!(e2[0] == mn && e2[1] == Coord { x: mx.x, y: mn.y } && e2[2] == mx && e2[3] == Coord { x: mn.x, y: mx.y } && e2[4] == mn);
    let rl = r.to_lines();
    assert!(rl[0].start == e[0] && rl[0].end == e[1] && rl[1].start == e[1] && rl[1].end == e[2]
        && rl[2].start == e[2] && rl[2].end == e[3] && rl[3].start == e[3] && rl[3].end == e[0]);
}

/// Geometry enum round trips: into the enum and back gives the identical value; a mismatching
/// variant is an error (never a silently converted geometry).
#[cfg(kani)]
#[kani::proof]
#[kani::unwind(8)]
#[kani::stub(alloc::fmt::format, stub_format)]
fn c18_k_geometry_roundtrip() {
    let a = any_coord_i32();
    let b = any_coord_i32();
    let c = any_coord_i32();
    { let v = Point(a); let g: Geometry<i32> = v.into(); assert!(Point::try_from(g.clone()).ok() == Some(v)); assert!(Line::try_from(g).is_err()); }
    { let v = Line::new(a, b); let g: Geometry<i32> = v.into(); assert!(Line::try_from(g.clone()).ok() == Some(v)); assert!(Rect::try_from(g).is_err()); }
    { let v = Rect::new(a, b); let g: Geometry<i32> = v.into(); assert!(Rect::try_from(g.clone()).ok() == Some(v)); assert!(Triangle::try_from(g).is_err()); }
    { let v = Triangle(a, b, c); let g: Geometry<i32> = v.into(); assert!(Triangle::try_from(g.clone()).ok() == Some(v)); assert!(Point::try_from(g).is_err()); }
}

#[cfg(kani)]
#[kani::proof]
#[kani::unwind(8)]
#[kani::stub(alloc::fmt::format, stub_format)]
fn c18_k_geometry_roundtrip_vec() {
    let ls = ring_i32(3);
    let g: Geometry<i32> = ls.clone().into();
    match LineString::try_from(g.clone()) { Ok(back) => assert!(same_ring(&back, &ls)), Err(_) => assert!(false) }
    assert!(Polygon::try_from(g).is_err());
}

#[cfg(kani)]
fn stub_format(_args: core::fmt::Arguments<'_>) -> alloc::string::String {
    alloc::string::String::new()
}
