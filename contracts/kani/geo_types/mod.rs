// Kani harnesses for geo-types (included from geo-types/src/lib.rs under cfg(kani)).
use crate::{Coord, CoordNum, Geometry, Line, LineString, MultiPoint, MultiLineString, MultiPolygon, Point, Polygon, Rect, Triangle};
use alloc::vec;
use alloc::vec::Vec;
use core::convert::TryFrom;

include!(concat!(env!("GEO_VERIF_DIR"), "/contracts/kani/common.rs"));
include!(concat!(env!("GEO_VERIF_DIR"), "/contracts/kani/geo_types/c18.rs"));

#[cfg(kani)]
include!(concat!(env!("GEO_VERIF_DIR"), "/.work/playback/geo_types.rs"));
