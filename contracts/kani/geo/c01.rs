// ======================================================================================
// C01 -- finite-state components of the relate pipeline (K-complete: the domains are finite).
// The noded-graph construction as a whole is NOT under contract (DESIGN §5 C01).
// ======================================================================================
use crate::relate::IntersectionMatrix;
use crate::dimensions::{Dimensions, HasDimensions};

#[cfg(kani)]
fn any_dim() -> Dimensions {
    let k: u8 = kani::any();
    kani::assume(k < 4);
    match k { 0 => Dimensions::Empty, 1 => Dimensions::ZeroDimensional, 2 => Dimensions::OneDimensional, _ => Dimensions::TwoDimensional }
}
#[cfg(kani)]
const POS: [CoordPos; 3] = [CoordPos::Inside, CoordPos::OnBoundary, CoordPos::Outside];

#[cfg(kani)]
fn any_pos() -> CoordPos { let k: u8 = kani::any(); kani::assume(k < 3); POS[k as usize] }

/// all 4^9 matrices: every cell symbolic
#[cfg(kani)]
fn any_matrix() -> (IntersectionMatrix, [[Dimensions; 3]; 3]) {
    let mut m = IntersectionMatrix::empty();
    let mut cells = [[Dimensions::Empty; 3]; 3];
    let mut a = 0;
    while a < 3 {
        let mut b = 0;
        while b < 3 {
            let d = any_dim();
            cells[a][b] = d;
            m.set(POS[a], POS[b], d);
            b += 1;
        }
        a += 1;
    }
    (m, cells)
}

/// DE-9IM pattern match on the oracle's cell array: 'T' non-empty, 'F' empty, '*' anything, '0'/'1'/'2' exact
#[cfg(kani)]
fn mask(c: &[[Dimensions; 3]; 3], pat: &[u8; 9]) -> bool {
    let mut ok = true;
    let mut i = 0;
    while i < 9 {
        let d = c[i / 3][i % 3];
        ok = ok && match pat[i] {
            b'T' => d != Dimensions::Empty,
            b'F' => d == Dimensions::Empty,
            b'0' => d == Dimensions::ZeroDimensional,
            b'1' => d == Dimensions::OneDimensional,
            b'2' => d == Dimensions::TwoDimensional,
            _ => true,
        };
        i += 1;
    }
    ok
}

/// the named predicates are exactly their documented DE-9IM masks, for every matrix
#[cfg(kani)]
#[kani::proof]
#[kani::unwind(12)]
fn c01_k_matrix_masks() {
    let (m, c) = any_matrix();
    // get returns what was set (all nine cells)
    let (a, b) = (any_pos(), any_pos());
    let ia = if a == CoordPos::Inside { 0 } else if a == CoordPos::OnBoundary { 1 } else { 2 };
    let ib = if b == CoordPos::Inside { 0 } else if b == CoordPos::OnBoundary { 1 } else { 2 };
    assert!(m.get(a, b) == c[ia][ib]);
    assert!(m.is_disjoint() == mask(&c, b"FF*FF****"));
    assert!(m.is_intersects() == !mask(&c, b"FF*FF****"));
    assert!(m.is_within() == mask(&c, b"T*F**F***"));
    assert!(m.is_contains() == mask(&c, b"T*****FF*"));
    assert!(m.is_coveredby() == (mask(&c, b"T*F**F***") || mask(&c, b"*TF**F***") || mask(&c, b"**FT*F***") || mask(&c, b"**F*TF***")));
    assert!(m.is_covers() == (mask(&c, b"T*****FF*") || mask(&c, b"*T****FF*") || mask(&c, b"***T**FF*") || mask(&c, b"****T*FF*")));
    assert!(m.is_touches() == (mask(&c, b"FT*******") || mask(&c, b"F**T*****") || mask(&c, b"F***T****")));
    // within(a,b) on a matrix is contains on its transpose
    let mut t = IntersectionMatrix::empty();
    let mut i = 0;
    while i < 9 { t.set(POS[i % 3], POS[i / 3], c[i / 3][i % 3]); i += 1; }
    assert!(m.is_within() == t.is_contains() && m.is_coveredby() == t.is_covers());
    assert!(m.is_disjoint() == t.is_disjoint() && m.is_touches() == t.is_touches() && m.is_equal_topo() == t.is_equal_topo());
    assert!(m.is_crosses() == t.is_crosses() && m.is_overlaps() == t.is_overlaps());
}

/// equal_topo: T*F**FFF*, or both operands empty
#[cfg(kani)]
#[kani::proof]
#[kani::unwind(12)]
fn c01_k_matrix_equal_topo() {
    let (m, c) = any_matrix();
    let both_empty = mask(&c, b"FFFFFFFF2");
    assert!(m.is_equal_topo() == (mask(&c, b"T*F**FFF*") || both_empty));
}

/// set / set_at_least / set_at_least_if_in_both: the addressed cell becomes (the max with) the value, and NO
/// other cell changes (whole-matrix frame)
#[cfg(kani)]
#[kani::proof]
#[kani::unwind(12)]
fn c01_k_matrix_setters() {
    let (mut m, c) = any_matrix();
    let (a, b, d) = (any_pos(), any_pos(), any_dim());
    let which: u8 = kani::any();
    kani::assume(which < 4);
    let (oa, ob): (bool, bool) = (kani::any(), kani::any());
    match which {
        0 => m.set(a, b, d),
        1 => m.set_at_least(a, b, d),
        2 => m.set_at_least_if_in_both(if oa { Some(a) } else { None }, if ob { Some(b) } else { None }, d),
        _ => {}
    }
    let mut i = 0;
    while i < 9 {
        let (pa, pb) = (POS[i / 3], POS[i % 3]);
        let old = c[i / 3][i % 3];
        let addressed = pa == a && pb == b;
        let want = match which {
            0 if addressed => d,
            1 if addressed => if old < d { d } else { old },
            2 if addressed && oa && ob => if old < d { d } else { old },
            _ => old,
        };
        assert!(m.get(pa, pb) == want);
        i += 1;
    }
}

/// compute_disjoint: exterior row / column = dimension of the operand / of its boundary, nothing else touched
#[cfg(kani)]
struct AbstractGeom { dim: Dimensions, bdim: Dimensions }
#[cfg(kani)]
impl HasDimensions for AbstractGeom {
    fn is_empty(&self) -> bool { self.dim == Dimensions::Empty }
    fn dimensions(&self) -> Dimensions { self.dim }
    fn boundary_dimensions(&self) -> Dimensions { self.bdim }
}

#[cfg(kani)]
#[kani::proof]
#[kani::unwind(12)]
fn c01_k_compute_disjoint() {
    let ga = AbstractGeom { dim: any_dim(), bdim: any_dim() };
    let gb = AbstractGeom { dim: any_dim(), bdim: any_dim() };
    // a boundary has lower dimension than its geometry; an empty geometry has an empty boundary
    kani::assume(ga.bdim == Dimensions::Empty || ga.bdim < ga.dim);
    kani::assume(gb.bdim == Dimensions::Empty || gb.bdim < gb.dim);
    let mut m = IntersectionMatrix::empty_disjoint();
    m.compute_disjoint(&ga, &gb);
    use CoordPos::*;
    assert!(m.get(Inside, Inside) == Dimensions::Empty && m.get(Inside, OnBoundary) == Dimensions::Empty);
    assert!(m.get(OnBoundary, Inside) == Dimensions::Empty && m.get(OnBoundary, OnBoundary) == Dimensions::Empty);
    assert!(m.get(Inside, Outside) == ga.dim && m.get(OnBoundary, Outside) == ga.bdim);
    assert!(m.get(Outside, Inside) == gb.dim && m.get(Outside, OnBoundary) == gb.bdim);
    assert!(m.get(Outside, Outside) == Dimensions::TwoDimensional);
    assert!(m.is_disjoint());
}

/// HasDimensions of the loop-free types on the lattice (Line / Rect / Triangle / Point): dimension of the
/// point set and of its boundary
#[cfg(kani)]
#[kani::proof]
fn c01_k_dimensions_line_rect_tri() {
    let (a, b, c) = (lat_coord_i16(LAT), lat_coord_i16(LAT), lat_coord_i16(LAT));
    let l = Line::new(a, b);
    assert!(l.dimensions() == if a == b { Dimensions::ZeroDimensional } else { Dimensions::OneDimensional });
    assert!(l.boundary_dimensions() == if a == b { Dimensions::Empty } else { Dimensions::ZeroDimensional });
    assert!(!l.is_empty());
    let r = Rect::new(a, b);
    let rd = if a == b { Dimensions::ZeroDimensional } else if a.x == b.x || a.y == b.y { Dimensions::OneDimensional } else { Dimensions::TwoDimensional };
    assert!(r.dimensions() == rd);
    assert!(r.boundary_dimensions() == match rd { Dimensions::TwoDimensional => Dimensions::OneDimensional, Dimensions::OneDimensional => Dimensions::ZeroDimensional, _ => Dimensions::Empty });
    let t = Triangle(a, b, c);
    let td = if a == b && b == c { Dimensions::ZeroDimensional } else if spec::orient(sp(a), sp(b), sp(c)) == 0 { Dimensions::OneDimensional } else { Dimensions::TwoDimensional };
    assert!(t.dimensions() == td);
    assert!(t.boundary_dimensions() == match td { Dimensions::TwoDimensional => Dimensions::OneDimensional, Dimensions::OneDimensional => Dimensions::ZeroDimensional, _ => Dimensions::Empty });
    let p = Point(a);
    assert!(p.dimensions() == Dimensions::ZeroDimensional && p.boundary_dimensions() == Dimensions::Empty && !p.is_empty());
}
