// ======================================================================================
// C13 -- affine transforms: K harnesses for what the Verus unit cannot take (`mut self`
// builders, the iterator fold of compose_many, the Neg/ToPrimitive bounds of inverse).
// Scalar i32 on a small lattice (products fit) -- loop-free harnesses are complete there.
// ======================================================================================
// `==` on AffineTransform<i32> compiles to a 36-byte memcmp: unwind bound 40
#[cfg(kani)]
macro_rules! k_harness40 {
    ($name:ident, $body:ident ( $($arg:expr),* )) => {
        #[cfg(kani)]
        #[kani::proof]
        #[kani::unwind(40)]
        fn $name() { $body($($arg),*); }
    };
}
#[cfg(kani)]
fn lat_affine_i32(k: i32) -> AffineTransform<i32> {
    let v: [i32; 6] = kani::any();
    let mut i = 0;
    while i < 6 { kani::assume(-k <= v[i] && v[i] <= k); i += 1; }
    AffineTransform::new(v[0], v[1], v[2], v[3], v[4], v[5])
}

/// inverse is None exactly for singular matrices (all |entries| <= 8: complete on that lattice)
#[cfg(kani)]
#[kani::proof]
#[kani::unwind(8)]
fn c13_k_inverse_none_iff_singular() {
    let t = lat_affine_i32(8);
    let det = t.a() * t.e() - t.b() * t.d();
    let inv = t.inverse();
    assert!(inv.is_none() == (det == 0));
    kani::cover!(det == 0 && t.a() != 0 && t.b() != 0, "rank-one singular");
    kani::cover!(det == 0 && t.b() == 0 && t.d() == 0, "axis-aligned singular");
}

/// transform with a CONCRETE linear part from a menu (identity, quarter turn, reflection, shear, scale 2,
/// swap) and a symbolic integer translation: symbolic x symbolic products are intractable for SAT here
/// (> 600 s), constant x symbolic is linear.
#[cfg(kani)]
fn menu_affine(which: u8) -> AffineTransform<i32> {
    let (tx, ty): (i32, i32) = (kani::any(), kani::any());
    kani::assume(-8 <= tx && tx <= 8 && -8 <= ty && ty <= 8);
    match which {
        0 => AffineTransform::new(1, 0, tx, 0, 1, ty),
        1 => AffineTransform::new(0, -1, tx, 1, 0, ty),
        2 => AffineTransform::new(-1, 0, tx, 0, 1, ty),
        3 => AffineTransform::new(1, 1, tx, 0, 1, ty),
        4 => AffineTransform::new(2, 0, tx, 0, 2, ty),
        _ => AffineTransform::new(0, 1, tx, 1, 0, ty),
    }
}

/// inverse undoes the transform (integer scalar: exact when det = +-1); linear part from the menu
#[cfg(kani)]
fn body_inverse_roundtrip(which: u8) {
    let t = menu_affine(which);
    let c = lat_coord_i32(8);
    match t.inverse() {
        None => assert!(false),
        Some(inv) => {
            assert!(inv.apply(t.apply(c)) == c);
            assert!(t.apply(inv.apply(c)) == c);
            assert!(t.compose(&inv).is_identity() && inv.compose(&t).is_identity());
        }
    }
}
k_harness40!(c13_k_inverse_roundtrip_turn, body_inverse_roundtrip(1));
k_harness40!(c13_k_inverse_roundtrip_reflect, body_inverse_roundtrip(2));
k_harness40!(c13_k_inverse_roundtrip_shear, body_inverse_roundtrip(3));
k_harness40!(c13_k_inverse_roundtrip_swap, body_inverse_roundtrip(5));

/// compose_many(ts) applied = self, then ts[0], ts[1], ... in slice order (bounded: <= 2 extra transforms,
/// non-commuting menu entries)
#[cfg(kani)]
fn body_compose_many(w0: u8, w1: u8, w2: u8) {
    let (t0, t1, t2) = (menu_affine(w0), menu_affine(w1), menu_affine(w2));
    let c = lat_coord_i32(8);
    let all = t0.compose_many(&[t1, t2]);
    assert!(all.apply(c) == t2.apply(t1.apply(t0.apply(c))));
    assert!(all == t0.compose(&t1).compose(&t2));
    assert!(t0.compose_many(&[]) == t0);
    assert!(t0.compose_many(&[t1]) == t0.compose(&t1));
    assert!(t0.compose(&t1).apply(c) == t1.apply(t0.apply(c)));
}
k_harness40!(c13_k_compose_many_turn_shift_shear, body_compose_many(1, 0, 3));
k_harness40!(c13_k_compose_many_scale_turn_reflect, body_compose_many(4, 1, 2));
k_harness40!(c13_k_compose_many_shear_swap_turn, body_compose_many(3, 5, 1));

/// builder forms equal composing the documented matrix; identity laws
#[cfg(kani)]
#[kani::proof]
#[kani::unwind(40)]
fn c13_k_builders() {
    let which: u8 = kani::any();
    kani::assume(which < 6);
    let t = menu_affine(which);
    let (dx, dy, fx, fy) = { let v: [i32; 4] = kani::any(); let mut i = 0; while i < 4 { kani::assume(-4 <= v[i] && v[i] <= 4); i += 1; } (v[0], v[1], v[2], v[3]) };
    let o = lat_coord_i32(4);
    let c = lat_coord_i32(4);
    assert!(t.translated(dx, dy) == t.compose(&AffineTransform::translate(dx, dy)));
    assert!(t.scaled(fx, fy, o) == t.compose(&AffineTransform::scale(fx, fy, o)));
    assert!(AffineTransform::translate(dx, dy).apply(c) == Coord { x: c.x + dx, y: c.y + dy });
    assert!(AffineTransform::scale(fx, fy, o).apply(o) == o);
    assert!(AffineTransform::scale(fx, fy, o).apply(c) == Coord { x: o.x + (c.x - o.x) * fx, y: o.y + (c.y - o.y) * fy });
    assert!(AffineTransform::<i32>::identity().is_identity() && AffineTransform::<i32>::default().is_identity());
    assert!(t.compose(&AffineTransform::identity()) == t && AffineTransform::identity().compose(&t) == t);
    assert!(t.is_identity() == (t.a() == 1 && t.b() == 0 && t.xoff() == 0 && t.d() == 0 && t.e() == 1 && t.yoff() == 0));
}

/// f64: inverse is None exactly for singular matrices (lattice |entries| <= 4); exact round trip for the menu
#[cfg(kani)]
#[kani::proof]
#[kani::unwind(8)]
fn c13_k_inverse_f64_none_iff_singular() {
    let ti = lat_affine_i32(4);
    let t = AffineTransform::new(ti.a() as f64, ti.b() as f64, ti.xoff() as f64, ti.d() as f64, ti.e() as f64, ti.yoff() as f64);
    let det = ti.a() * ti.e() - ti.b() * ti.d();
    assert!(t.inverse().is_none() == (det == 0));
}

#[cfg(kani)]
fn body_inverse_f64(which: u8) {
    let ti = menu_affine(which);
    let t = AffineTransform::new(ti.a() as f64, ti.b() as f64, ti.xoff() as f64, ti.d() as f64, ti.e() as f64, ti.yoff() as f64);
    let c = lat_coord_f64(8);
    let back = t.inverse().unwrap().apply(t.apply(c));
    assert!(back == c);
}
k_harness40!(c13_k_inverse_f64_turn, body_inverse_f64(1));
k_harness40!(c13_k_inverse_f64_scale2, body_inverse_f64(4));
