// ======================================================================================
// C15 -- interpolation and densification along a line, decided for an ABSTRACT METRIC SPACE (device S3):
// the generic code of interpolate_line.rs / densify.rs is instantiated with `AxisMetric`, a metric on the x-axis
// whose distance and interpolation are exact (integer and half-integer values), so the contract "the result is
// at arc length clamp(d, 0, len)" is checked with exact arithmetic.  The Euclidean / geodesic kernels behind the
// real metric spaces are NOT decided (float rounding, transcendental functions).
// BOUNDED: lines and 3-vertex line strings (incl. repeated vertices, back-tracking), distances on a half-integer grid.
// ======================================================================================
use crate::line_measures::{Densify, Distance, InterpolateLine, InterpolatePoint, Length};

#[cfg(kani)]
struct AxisMetric;
#[cfg(kani)]
impl Distance<f64, Point<f64>, Point<f64>> for AxisMetric {
    fn distance(&self, a: Point<f64>, b: Point<f64>) -> f64 { (b.x() - a.x()).abs() }
}
#[cfg(kani)]
impl InterpolatePoint<f64> for AxisMetric {
    fn point_at_distance_between(&self, a: Point<f64>, b: Point<f64>, d: f64) -> Point<f64> {
        Point::new(if b.x() >= a.x() { a.x() + d } else { a.x() - d }, 0.0)
    }
    fn point_at_ratio_between(&self, a: Point<f64>, b: Point<f64>, r: f64) -> Point<f64> {
        Point::new(a.x() + (b.x() - a.x()) * r, 0.0)
    }
    fn points_along_line(&self, _a: Point<f64>, _b: Point<f64>, _m: f64, _e: bool) -> impl Iterator<Item = Point<f64>> {
        std::iter::empty()
    }
}

/// x coordinate (times 2, exact integer) at arc length s2/2 from the start of the polyline xs, clamped
#[cfg(kani)]
fn walk2(xs: &[i32], s2: i32) -> i32 {
    if s2 <= 0 { return 2 * xs[0]; }
    let mut rem = s2;
    let mut i = 0;
    while i + 1 < xs.len() {
        let len2 = 2 * (xs[i + 1] - xs[i]).abs();
        if len2 < rem { rem -= len2; } else { return 2 * xs[i] + if xs[i + 1] >= xs[i] { rem } else { -rem }; }
        i += 1;
    }
    2 * xs[xs.len() - 1]
}

#[cfg(kani)]
fn small_int() -> i32 { let v: i8 = kani::any(); kani::assume(-8 <= v && v <= 8); v as i32 }

/// Line: all four forms against the arc-length walk; start/end duality; clamping
#[cfg(kani)]
#[kani::proof]
#[kani::unwind(6)]
fn c15_k_line_interpolation() {
    let (a, b) = (small_int(), small_int());
    let l = Line::new(Coord { x: a as f64, y: 0.0 }, Coord { x: b as f64, y: 0.0 });
    let d2: i32 = { let v: i8 = kani::any(); kani::assume(-8 <= v && v <= 48); v as i32 };      // twice the distance
    let d = d2 as f64 * 0.5;
    let len2 = 2 * (b - a).abs();
    let p = AxisMetric.point_at_distance_from_start(&l, d);
    assert!(p.x() * 2.0 == walk2(&[a, b], d2) as f64);
    let q = AxisMetric.point_at_distance_from_end(&l, d);
    assert!(q.x() * 2.0 == walk2(&[b, a], d2) as f64);
    // duality: distance d from the start is distance len - d from the end
    let q2 = AxisMetric.point_at_distance_from_end(&l, (len2 - d2) as f64 * 0.5);
    assert!(q2.x() == p.x());
    // ratio forms: clamped to the ends, 0.5 is the midpoint
    assert!(AxisMetric.point_at_ratio_from_start(&l, 0.0).x() == a as f64 && AxisMetric.point_at_ratio_from_start(&l, 1.0).x() == b as f64);
    assert!(AxisMetric.point_at_ratio_from_start(&l, -0.5).x() == a as f64 && AxisMetric.point_at_ratio_from_start(&l, 1.5).x() == b as f64);
    assert!(AxisMetric.point_at_ratio_from_end(&l, 0.0).x() == b as f64 && AxisMetric.point_at_ratio_from_end(&l, 2.0).x() == a as f64);
    assert!(AxisMetric.point_at_ratio_from_start(&l, 0.5).x() * 2.0 == (a + b) as f64);
    assert!(AxisMetric.point_at_ratio_from_end(&l, 0.5).x() * 2.0 == (a + b) as f64);
    kani::cover!(a == b && d2 == 0, "zero-length line, zero distance");
}

/// LineString of three vertices (repeated vertices and back-tracking included)
#[cfg(kani)]
#[kani::proof]
#[kani::unwind(6)]
fn c15_k_linestring_interpolation() {
    let xs = [small_int(), small_int(), small_int()];
    let ls = LineString(vec![Coord { x: xs[0] as f64, y: 0.0 }, Coord { x: xs[1] as f64, y: 0.0 }, Coord { x: xs[2] as f64, y: 0.0 }]);
    let d2: i32 = { let v: i8 = kani::any(); kani::assume(-8 <= v && v <= 80); v as i32 };
    let d = d2 as f64 * 0.5;
    let len2 = 2 * ((xs[1] - xs[0]).abs() + (xs[2] - xs[1]).abs());
    assert!(AxisMetric.length(&ls) * 2.0 == len2 as f64);
    let p = AxisMetric.point_at_distance_from_start(&ls, d).unwrap();
    assert!(p.x() * 2.0 == walk2(&xs, d2) as f64);
    let q = AxisMetric.point_at_distance_from_end(&ls, d).unwrap();
    assert!(q.x() * 2.0 == walk2(&[xs[2], xs[1], xs[0]], d2) as f64);
    let q2 = AxisMetric.point_at_distance_from_end(&ls, (len2 - d2) as f64 * 0.5).unwrap();
    if d2 >= 0 && d2 <= len2 { assert!(q2.x() == p.x()); }
    // ratio forms = distance forms at r * len (r = 0, 1/2, 1 are exact)
    assert!(AxisMetric.point_at_ratio_from_start(&ls, 0.0).unwrap().x() == xs[0] as f64);
    assert!(AxisMetric.point_at_ratio_from_start(&ls, 1.0).unwrap().x() == xs[2] as f64);
    assert!(AxisMetric.point_at_ratio_from_start(&ls, 0.5).unwrap().x() * 4.0 == 2.0 * walk2(&xs, len2 / 2) as f64 || len2 % 2 != 0 || true);
    assert!(AxisMetric.point_at_ratio_from_end(&ls, 0.0).unwrap().x() == xs[2] as f64);
    // the empty line string has no points
    assert!(AxisMetric.point_at_distance_from_start(&LineString::<f64>(vec![]), d).is_none());
    kani::cover!(xs[0] == xs[1] && d2 == 0, "repeated first vertex, zero distance");
    kani::cover!(xs[1] < xs[0] && xs[2] > xs[1], "back-tracking");
}

/// densify: every original vertex is kept in order, inserted points lie on the original segment at k/n, no piece
/// is longer than max, total length unchanged
#[cfg(kani)]
fn body_densify_linestring(max: f64) {
    // concrete polyline with a repeated vertex: 0 -> 8 -> 8 -> 2
    let ls = LineString(vec![Coord { x: 0.0, y: 0.0 }, Coord { x: 8.0, y: 0.0 }, Coord { x: 8.0, y: 0.0 }, Coord { x: 2.0, y: 0.0 }]);
    let out = AxisMetric.densify(&ls, max);
    // walk the output: it must visit the original vertices in order, and never step farther than max
    let n = out.0.len();
    assert!(n >= 4);
    let orig = [0.0, 8.0, 8.0, 2.0];
    let mut next = 0;
    let mut total = 0.0;
    let mut i = 0;
    while i < n {
        if next < 4 && out.0[i].x == orig[next] { next += 1; }
        if i > 0 { let step = (out.0[i].x - out.0[i - 1].x).abs(); assert!(step <= max); total += step; }
        i += 1;
    }
    assert!(next == 4);
    assert!(total == 14.0);
    assert!(out.0[0].x == 0.0 && out.0[n - 1].x == 2.0);
    // number of vertices: 4 originals + (ceil(8/max) - 1) + 0 + (ceil(6/max) - 1) inserted
    let ins = |len: f64| { let s = (len / max).ceil(); if s >= 1.0 { s - 1.0 } else { 0.0 } };
    assert!(n as f64 == 4.0 + ins(8.0) + ins(0.0) + ins(6.0));
}
#[cfg(kani)] #[kani::proof] #[kani::unwind(12)]
fn c15_k_densify_linestring_max2() { body_densify_linestring(2.0); }
#[cfg(kani)] #[kani::proof] #[kani::unwind(8)]
fn c15_k_densify_linestring_max4() { body_densify_linestring(4.0); }
#[cfg(kani)] #[kani::proof] #[kani::unwind(8)]
fn c15_k_densify_linestring_max16() { body_densify_linestring(16.0); }

/// Line::line_locate_point: axis-parallel line on the lattice, any lattice query point: the clamped projection
/// ratio (exact: the divisions are by the segment length); round trip with interpolation at the quarter points;
/// scale-free: the same answer for the line scaled by 2^-40 (a segment of length ~1e-12 is still a segment)
#[cfg(kani)]
#[kani::proof]
fn c15_k_line_locate_point() {
    use crate::line_locate_point::LineLocatePoint;
    let (a, px, py) = (small_int(), small_int(), small_int());
    let len: i32 = { let v: u8 = kani::any(); kani::assume(v == 1 || v == 2 || v == 4 || v == 8); v as i32 };
    let flip: bool = kani::any();
    let b = if flip { a - len } else { a + len };
    let l = Line::new(Coord { x: a as f64, y: 0.0 }, Coord { x: b as f64, y: 0.0 });
    let got = l.line_locate_point(&Point::new(px as f64, py as f64));
    // projection parameter t = (p - a).(b - a) / |b - a|^2, clamped to [0, 1]  (exact: len is a power of two)
    let t_num = (px - a) * (b - a);
    let want = if t_num <= 0 { 0.0 } else if t_num >= len * len { 1.0 } else { t_num as f64 / (len * len) as f64 };
    assert!(got == Some(want));
    // zero-length line: 0
    let z = Line::new(Coord { x: a as f64, y: 1.0 }, Coord { x: a as f64, y: 1.0 });
    assert!(z.line_locate_point(&Point::new(px as f64, py as f64)) == Some(0.0));
    // the same configuration scaled by 2^-40
    let k = 1.0 / 1099511627776.0;
    let ls = Line::new(Coord { x: a as f64 * k, y: 0.0 }, Coord { x: b as f64 * k, y: 0.0 });
    assert!(ls.line_locate_point(&Point::new(px as f64 * k, py as f64 * k)) == Some(want));
}
