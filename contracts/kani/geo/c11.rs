// ======================================================================================
// C11 -- line_intersection.  F = f64 on the integer lattice |c| <= LAT11, with robust::orient2d
// replaced by its ASSUMED CONTRACT (exact sign, computed by the shared oracle spec::cross), so
// the loop-free harnesses are complete for the lattice.  Also C03: the float scalars select the
// exact kernel.
// ======================================================================================
use crate::line_intersection::{line_intersection, LineIntersection};

#[cfg(kani)]
pub(crate) const LAT11: i16 = 5;

/// assumed contract of `robust::orient2d` on lattice input: a float with the exact sign
#[cfg(kani)]
pub(crate) fn robust_orient2d_model<T: Into<f64>>(pa: robust::Coord<T>, pb: robust::Coord<T>, pc: robust::Coord<T>) -> f64 {
    let c = |p: robust::Coord<T>| { let (x, y): (f64, f64) = (p.x.into(), p.y.into()); spec::P { x: x as spec::S, y: y as spec::S } };
    spec::cross(c(pa), c(pb), c(pc)) as f64
}

#[cfg(kani)]
pub(crate) fn lat_coord_f64_16(k: i16) -> (Coord<f64>, spec::P) {
    let c = lat_coord_i16(k);
    (Coord { x: c.x as f64, y: c.y as f64 }, spec::P { x: c.x, y: c.y })
}

#[cfg(kani)]
fn same_bits(a: Coord<f64>, b: Coord<f64>) -> bool { a.x.to_bits() == b.x.to_bits() && a.y.to_bits() == b.y.to_bits() }

#[cfg(kani)]
fn lex_le(a: spec::P, b: spec::P) -> bool { a.x < b.x || (a.x == b.x && a.y <= b.y) }

// ---- C03: float scalars use the robust kernel (exact sign), both f64 and f32 -------------------
#[cfg(kani)]
#[kani::proof]
#[kani::stub(robust::orient2d, robust_orient2d_model)]
fn c03_k_float_kernel_is_exact() {
    let ((p, ps), (q, qs), (r, rs)) = (lat_coord_f64_16(64), lat_coord_f64_16(64), lat_coord_f64_16(64));
    let e = spec::orient(ps, qs, rs);
    let o = <f64 as GeoNum>::Ker::orient2d(p, q, r);
    assert!(match o { Orientation::CounterClockwise => e == 1, Orientation::Clockwise => e == -1, Orientation::Collinear => e == 0 });
    let f = |c: Coord<f64>| Coord { x: c.x as f32, y: c.y as f32 };
    let o32 = <f32 as GeoNum>::Ker::orient2d(f(p), f(q), f(r));
    assert!(o32 == o);
    kani::cover!(e == 0 && ps != qs && qs != rs, "collinear distinct");
}

// ---- classification contract (non-degenerate segments) -----------------------------------------
#[cfg(kani)]
#[kani::proof]
#[kani::stub(robust::orient2d, robust_orient2d_model)]
#[kani::stub(crate::algorithm::line_intersection::proper_intersection, proper_intersection_model)]
fn c11_k_classification_lat3() { body_classification(3); }

#[cfg(kani)]
#[kani::proof]
#[kani::stub(robust::orient2d, robust_orient2d_model)]
#[kani::stub(crate::algorithm::line_intersection::proper_intersection, proper_intersection_model)]
fn c11_k_classification_lat5() { body_classification(LAT11); }

#[cfg(kani)]
fn body_classification(lat: i16) {
    let ((a, sa), (b, sb), (c, sc), (d, sd)) = (lat_coord_f64_16(lat), lat_coord_f64_16(lat), lat_coord_f64_16(lat), lat_coord_f64_16(lat));
    kani::assume(sa != sb && sc != sd);
    let (p, q) = (Line::new(a, b), Line::new(c, d));
    let r = line_intersection(p, q);
    let meet = spec::seg_meet(sa, sb, sc, sd);
    // None exactly when the segments share no point; agreement with `intersects`
    assert!(r.is_none() == !meet);
    assert!(p.intersects(&q) == meet);
    let all_collinear = spec::cross(sa, sb, sc) == 0 && spec::cross(sa, sb, sd) == 0;
    if let Some(li) = r {
        if all_collinear {
            // common part of two collinear segments, in lexicographic order along the carrier line
            let (p_lo, p_hi) = if lex_le(sa, sb) { (sa, sb) } else { (sb, sa) };
            let (q_lo, q_hi) = if lex_le(sc, sd) { (sc, sd) } else { (sd, sc) };
            let lo = if lex_le(p_lo, q_lo) { q_lo } else { p_lo };
            let hi = if lex_le(p_hi, q_hi) { p_hi } else { q_hi };
            match li {
                LineIntersection::Collinear { intersection: l } => {
                    // more than one common point, and exactly the common sub-segment (up to direction)
                    assert!(lo != hi);
                    let (ls, le) = (spec::P { x: l.start.x as spec::S, y: l.start.y as spec::S }, spec::P { x: l.end.x as spec::S, y: l.end.y as spec::S });
                    assert!((ls == lo && le == hi) || (ls == hi && le == lo));
                    // its end points are copies of input end points
                    assert!(same_bits(l.start, a) || same_bits(l.start, b) || same_bits(l.start, c) || same_bits(l.start, d));
                    assert!(same_bits(l.end, a) || same_bits(l.end, b) || same_bits(l.end, c) || same_bits(l.end, d));
                }
                LineIntersection::SinglePoint { intersection: x, is_proper } => {
                    assert!(lo == hi);
                    assert!(!is_proper);
                    assert!(x.x as spec::S == lo.x && x.y as spec::S == lo.y);
                    assert!(same_bits(x, a) || same_bits(x, b) || same_bits(x, c) || same_bits(x, d));
                }
            }
        } else {
            match li {
                LineIntersection::Collinear { .. } => assert!(false),
                LineIntersection::SinglePoint { intersection: x, is_proper } => {
                    // proper exactly when the point is interior to both segments, i.e. no end point lies on the other segment
                    let touching = spec::on_segment(sc, sa, sb) || spec::on_segment(sd, sa, sb) || spec::on_segment(sa, sc, sd) || spec::on_segment(sb, sc, sd);
                    assert!(is_proper == !touching);
                    assert!(li.is_proper() == is_proper);
                    if !is_proper {
                        // bit-identical to an end point that lies on the other segment
                        let ok = |e: Coord<f64>, se: spec::P, s1: spec::P, s2: spec::P| same_bits(x, e) && spec::on_segment(se, s1, s2);
                        assert!(ok(a, sa, sc, sd) || ok(b, sb, sc, sd) || ok(c, sc, sa, sb) || ok(d, sd, sa, sb));
                    }
                }
            }
        }
    }
    kani::cover!(all_collinear && meet, "collinear overlap / abutting");
    kani::cover!(!all_collinear && meet, "single point");
}

/// contract standing in for `proper_intersection` in the classification harness (its own harness is below)
#[cfg(kani)]
fn proper_intersection_model<F: GeoFloat>(p: Line<F>, _q: Line<F>) -> Coord<F> {
    // the classification / order harnesses do not look at the coordinates of a PROPER point
    p.start
}

// ---- the outcome does not depend on the order of the two segments -------------------------------
#[cfg(kani)]
#[kani::proof]
#[kani::stub(robust::orient2d, robust_orient2d_model)]
#[kani::stub(crate::algorithm::line_intersection::proper_intersection, proper_intersection_model)]
fn c11_k_order_invariance() {
    let ((a, sa), (b, sb), (c, sc), (d, sd)) = (lat_coord_f64_16(LAT11), lat_coord_f64_16(LAT11), lat_coord_f64_16(LAT11), lat_coord_f64_16(LAT11));
    kani::assume(sa != sb && sc != sd);
    let (p, q) = (Line::new(a, b), Line::new(c, d));
    let (r1, r2) = (line_intersection(p, q), line_intersection(q, p));
    match (r1, r2) {
        (None, None) => {}
        (Some(LineIntersection::Collinear { intersection: l1 }), Some(LineIntersection::Collinear { intersection: l2 })) => {
            assert!((same_bits(l1.start, l2.start) && same_bits(l1.end, l2.end)) || (same_bits(l1.start, l2.end) && same_bits(l1.end, l2.start)));
        }
        (Some(LineIntersection::SinglePoint { intersection: x1, is_proper: p1 }), Some(LineIntersection::SinglePoint { intersection: x2, is_proper: p2 })) => {
            assert!(p1 == p2);
            if !p1 { assert!(x1 == x2); }   // an improper point is the same end point (as a value) in both orders
        }
        _ => assert!(false),
    }
}

// ---- the proper point lies in both envelopes (real arithmetic of proper_intersection; small lattice) ----
#[cfg(kani)]
#[kani::proof]
#[kani::stub(robust::orient2d, robust_orient2d_model)]
fn c11_k_proper_point_in_envelopes() {
    let ((a, sa), (b, sb), (c, sc), (d, sd)) = (lat_coord_f64_16(3), lat_coord_f64_16(3), lat_coord_f64_16(3), lat_coord_f64_16(3));
    kani::assume(sa != sb && sc != sd);
    // strictly crossing segments
    kani::assume(spec::orient(sa, sb, sc) * spec::orient(sa, sb, sd) < 0 && spec::orient(sc, sd, sa) * spec::orient(sc, sd, sb) < 0);
    let (p, q) = (Line::new(a, b), Line::new(c, d));
    match line_intersection(p, q) {
        Some(LineIntersection::SinglePoint { intersection: x, is_proper: true }) => {
            let inb = |x: Coord<f64>, u: Coord<f64>, v: Coord<f64>| u.x.min(v.x) <= x.x && x.x <= u.x.max(v.x) && u.y.min(v.y) <= x.y && x.y <= u.y.max(v.y);
            assert!(inb(x, a, b) && inb(x, c, d));
        }
        _ => assert!(false),
    }
}

// ---- C03, off the lattice: ill-conditioned literal triples (the naive f64 determinant has the WRONG sign for each
//      of them; the expected signs were computed with exact rational arithmetic).  The REAL robust::orient2d runs
//      here (no stub): concrete input, so CBMC executes the adaptive expansion arithmetic by constant folding.
#[cfg(kani)]
const HARD_TRIPLES: [(f64, f64, f64, f64, f64, f64, i8); 13] = [
    (94.78705740730024, 66.35094018511016, 39.488401407353116, 27.64188098514718, 4.838159498444966, 3.3867116489114766, -1),
    (10.314540687234699, 51.572703436173484, 57.1247270972651, 285.6236354863255, 18.795223968446482, 93.97611984223241, 1),
    (60.89981231344999, 42.629868619414985, 7.329354737292205, 5.1305483161045435, 51.198163736448436, 35.8387146155139, -1),
    (2.266067176278301, 1.5862470233948107, 46.174911677113585, 32.322438173979506, 16.81315740686539, 11.769210184805772, -1),
    (98.46691339965336, 295.4007401989601, 44.0682805637918, 132.2048416913754, 11.00173121699664, 33.00519365098993, -1),
    (51.63828855104252, 258.1914427552126, 20.529448520087055, 102.64724260043529, 95.20257450059395, 476.0128725029698, -1),
    (0.5, 2.5, 12.0, 60.0, 24.0, 120.0, 0),
    // maximally deceptive: the naive determinant has the wrong sign although |det| > 1.0 eps * (|l| + |r|), i.e. it
    // passes a static filter whose error bound is only slightly too tight (found by random search, exact signs by
    // rational arithmetic)
    (9.443727486259471, 2.833118245877841, 25.976067016127946, 7.792820104838383, 59.93693234563183, 17.98107970368955, 1),
    (97.15284411612213, 165.15983499740761, 15.698170294509076, 26.68688950066543, 96.08392882034877, 163.34267899459292, 1),
    (79.05726671943584, 23.717180015830753, 12.132968452025288, 3.639890535607586, 83.72653693402245, 25.117961080206733, 1),
    (83.34866195326882, 27.78288731775627, 16.61219588962347, 5.53739862987449, 83.54548107716816, 27.848493692389386, -1),
    (71.28180598713753, 498.9726419099627, 27.3441417784507, 191.4089924491549, 7.8814772377591265, 55.17034066431388, 1),
    (29.766581471384992, 208.36607029969494, 72.22232272522795, 505.55625907659567, 31.448880707998047, 220.14216495598632, -1),
];

#[cfg(kani)]
fn body_hard_triple(k: usize) {
    let t = HARD_TRIPLES[k];
    let (p, q, r) = (Coord { x: t.0, y: t.1 }, Coord { x: t.2, y: t.3 }, Coord { x: t.4, y: t.5 });
    let o = <f64 as GeoNum>::Ker::orient2d(p, q, r);
    assert!(match o { Orientation::CounterClockwise => t.6 == 1, Orientation::Clockwise => t.6 == -1, Orientation::Collinear => t.6 == 0 });
    // the same decision through the public predicates: point-on-segment, ring winding order
    use crate::winding_order::{Winding, WindingOrder};
    let ring = LineString(vec![p, q, r, p]);
    let w = ring.winding_order();
    assert!(match w { Some(WindingOrder::CounterClockwise) => t.6 == 1, Some(WindingOrder::Clockwise) => t.6 == -1, None => t.6 == 0 });
}
#[cfg(kani)] #[kani::proof] #[kani::unwind(40)]
fn c03_k_hard_triple_0() { body_hard_triple(0); }
#[cfg(kani)] #[kani::proof] #[kani::unwind(40)]
fn c03_k_hard_triple_1() { body_hard_triple(1); }
#[cfg(kani)] #[kani::proof] #[kani::unwind(40)]
fn c03_k_hard_triple_4() { body_hard_triple(4); }
#[cfg(kani)] #[kani::proof] #[kani::unwind(40)]
fn c03_k_hard_triple_collinear() { body_hard_triple(6); }
#[cfg(kani)] #[kani::proof] #[kani::unwind(40)]
fn c03_k_hard_triple_2() { body_hard_triple(2); }
#[cfg(kani)] #[kani::proof] #[kani::unwind(40)]
fn c03_k_hard_triple_3() { body_hard_triple(3); }
#[cfg(kani)] #[kani::proof] #[kani::unwind(40)]
fn c03_k_hard_triple_5() { body_hard_triple(5); }
#[cfg(kani)] #[kani::proof] #[kani::unwind(40)]
fn c03_k_hard_triple_7() { body_hard_triple(7); }
#[cfg(kani)] #[kani::proof] #[kani::unwind(40)]
fn c03_k_hard_triple_8() { body_hard_triple(8); }
#[cfg(kani)] #[kani::proof] #[kani::unwind(40)]
fn c03_k_hard_triple_9() { body_hard_triple(9); }
#[cfg(kani)] #[kani::proof] #[kani::unwind(40)]
fn c03_k_hard_triple_10() { body_hard_triple(10); }
#[cfg(kani)] #[kani::proof] #[kani::unwind(40)]
fn c03_k_hard_triple_11() { body_hard_triple(11); }
#[cfg(kani)] #[kani::proof] #[kani::unwind(40)]
fn c03_k_hard_triple_12() { body_hard_triple(12); }
