// Harnesses for the i_overlay conversion glue of geo::algorithm::bool_ops (property C04).
// The overlay engine itself (i_overlay) is an ASSUMED contract; what is decided here is that geo hands it the
// rings it was given and reads its result back faithfully.  BOUNDED: rings of concrete small sizes.
use super::*;
use super::convert::{line_string_from_path, multi_polygon_from_shapes, polygon_from_shape, ring_to_shape_path};
use crate::bool_ops::OpType;
use geo_types::{Coord, CoordNum, LineString, Polygon};
use i_overlay::core::overlay_rule::OverlayRule;

include!(concat!(env!("GEO_VERIF_DIR"), "/contracts/kani/common.rs"));

/// ring -> path: a closed ring becomes the implicitly closed path of its vertices, in order, WITHOUT any
/// trailing copy of the first vertex (i_overlay closes paths implicitly) -- also when the closing vertex is
/// repeated.  Concrete rings are written as `vec![..]` literals (CBMC constant-folds those; rings built by
/// pushes are read back symbolically and the collect() of a symbolic-length slice exhausts memory).
#[cfg(kani)]
fn check_path(ring: LineString<f64>, want: &[Coord<f64>]) {
    let path = ring_to_shape_path(&ring);
    assert!(path.len() == want.len());
    let mut i = 0;
    while i < want.len() { assert!(path[i].0 == want[i]); i += 1; }
}
#[cfg(kani)]
fn c(x: f64, y: f64) -> Coord<f64> { Coord { x, y } }

#[cfg(kani)] #[kani::proof] #[kani::unwind(8)]
fn c04_k_ring_to_path_empty() { check_path(LineString(vec![]), &[]); }
#[cfg(kani)] #[kani::proof] #[kani::unwind(8)]
fn c04_k_ring_to_path_square() {
    check_path(LineString(vec![c(0., 0.), c(4., 0.), c(4., 4.), c(0., 4.), c(0., 0.)]), &[c(0., 0.), c(4., 0.), c(4., 4.), c(0., 4.)]);
}
#[cfg(kani)] #[kani::proof] #[kani::unwind(8)]
fn c04_k_ring_to_path_repeated_closing_vertex() {
    check_path(LineString(vec![c(0., 0.), c(4., 0.), c(4., 4.), c(0., 4.), c(0., 0.), c(0., 0.)]), &[c(0., 0.), c(4., 0.), c(4., 4.), c(0., 4.)]);
}
#[cfg(kani)] #[kani::proof] #[kani::unwind(8)]
fn c04_k_ring_to_path_twice_repeated_closing_vertex() {
    check_path(LineString(vec![c(1., 1.), c(5., 1.), c(3., 4.), c(1., 1.), c(1., 1.), c(1., 1.)]), &[c(1., 1.), c(5., 1.), c(3., 4.)]);
}
/// a vertex equal to the first one in the MIDDLE of the ring is kept (only trailing repeats are dropped)
#[cfg(kani)] #[kani::proof] #[kani::unwind(8)]
fn c04_k_ring_to_path_revisits_start_in_the_middle() {
    check_path(LineString(vec![c(0., 0.), c(4., 0.), c(0., 0.), c(0., 4.), c(0., 0.)]), &[c(0., 0.), c(4., 0.), c(0., 0.), c(0., 4.)]);
}

/// shape -> polygon: first path is the exterior, the rest are holes; every ring is closed and has the
/// REVERSED vertex order (i_overlay: outer clockwise / holes counter-clockwise, geo: the opposite)
#[cfg(kani)]
#[kani::proof]
#[kani::unwind(10)]
fn c04_k_polygon_from_shape() {
    const T: [(f64, f64); 4] = [(0.0, 0.0), (1.0, -1.0), (2.0, -2.0), (3.0, -3.0)];
    let mk = |n: usize, off: f64| { let mut p = Vec::with_capacity(8); let mut i = 0; while i < n { p.push(BoolOpsCoord(Coord { x: off + T[i].0, y: off + T[i].1 })); i += 1; } p };
    let mut shape = Vec::with_capacity(2);
    shape.push(mk(4, 0.0));
    shape.push(mk(3, 100.0));
    let e: Vec<Coord<f64>> = { let p = mk(4, 0.0); let mut v = Vec::with_capacity(4); let mut i = 0; while i < 4 { v.push(p[i].0); i += 1; } v };
    let h: Vec<Coord<f64>> = { let p = mk(3, 100.0); let mut v = Vec::with_capacity(4); let mut i = 0; while i < 3 { v.push(p[i].0); i += 1; } v };
    let poly = polygon_from_shape(shape);
    assert!(poly.interiors().len() == 1);
    let (ex, ho) = (&poly.exterior().0, &poly.interiors()[0].0);
    assert!(ex.len() == 5 && ex[0] == ex[4] && ho.len() == 4 && ho[0] == ho[3]);
    // closed [p0 p1 p2 p3 p0] reversed = [p0 p3 p2 p1 p0]
    assert!(ex[0] == e[0] && ex[1] == e[3] && ex[2] == e[2] && ex[3] == e[1]);
    assert!(ho[0] == h[0] && ho[1] == h[2] && ho[2] == h[1]);
    // an empty shape is the empty polygon
    let empty = polygon_from_shape(Vec::<Vec<BoolOpsCoord<f64>>>::new());
    assert!(empty.exterior().0.is_empty() && empty.interiors().is_empty());
}

#[cfg(kani)]
#[kani::proof]
#[kani::unwind(10)]
fn c04_k_line_string_from_path() {
    let mut p = Vec::with_capacity(4);
    p.push(BoolOpsCoord(Coord { x: 1.0, y: 2.0 })); p.push(BoolOpsCoord(Coord { x: 3.0, y: 4.0 })); p.push(BoolOpsCoord(Coord { x: 5.0, y: 6.0 }));
    let ls = line_string_from_path(p);
    assert!(ls.0.len() == 3 && ls.0[0] == Coord { x: 1.0, y: 2.0 } && ls.0[1] == Coord { x: 3.0, y: 4.0 } && ls.0[2] == Coord { x: 5.0, y: 6.0 });
}

/// the four operations map to the engine's rules of the same name (complete: 4 cases)
#[cfg(kani)]
#[kani::proof]
fn c04_k_op_type_to_overlay_rule() {
    assert!(matches!(OverlayRule::from(OpType::Intersection), OverlayRule::Intersect));
    assert!(matches!(OverlayRule::from(OpType::Union), OverlayRule::Union));
    assert!(matches!(OverlayRule::from(OpType::Difference), OverlayRule::Difference));
    assert!(matches!(OverlayRule::from(OpType::Xor), OverlayRule::Xor));
}

#[cfg(kani)]
include!(concat!(env!("GEO_VERIF_DIR"), "/.work/playback/pb_c04_convert.rs"));

