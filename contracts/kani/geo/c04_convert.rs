// Harnesses for the i_overlay conversion glue of geo::algorithm::bool_ops (property C04).
// The overlay engine itself (i_overlay) is an ASSUMED contract; what is decided here is that geo hands it the
// rings it was given and reads its result back faithfully.  BOUNDED: rings of concrete small sizes.
use super::*;
use super::convert::{line_string_from_path, multi_polygon_from_shapes, polygon_from_shape, ring_to_shape_path};
use crate::bool_ops::OpType;
use geo_types::{Coord, CoordNum, LineString, Polygon};
use i_overlay::core::overlay_rule::OverlayRule;

include!(concat!(env!("GEO_VERIF_DIR"), "/contracts/kani/common.rs"));

#[cfg(kani)]
fn ring_f64(n: usize) -> LineString<f64> {
    // pairwise distinct concrete coordinates (the glue only copies them)
    let mut v = Vec::with_capacity(8);
    let mut i = 0;
    while i < n { v.push(Coord { x: (i as f64) * 3.0 + 1.0, y: 10.0 - (i as f64) }); i += 1; }
    LineString(v)
}

/// ring -> path: a closed ring of n+1 coordinates becomes the implicit-closed path of its n distinct vertices,
/// in order; the path never ends with a copy of its first vertex (i_overlay closes paths implicitly)
#[cfg(kani)]
fn body_ring_to_path(n: usize, extra_closing: usize) {
    let mut ring = ring_f64(n);
    if n > 0 {
        let f = ring.0[0];
        let mut k = 0;
        while k < 1 + extra_closing { ring.0.push(f); k += 1; }     // closed; `extra_closing` repeats the closing vertex
    }
    let path = ring_to_shape_path(&ring);
    if n == 0 { assert!(path.is_empty()); return; }
    assert!(path.len() == n);
    let mut i = 0;
    while i < n { assert!(path[i].0 == ring.0[i]); i += 1; }
    // no trailing copy of the first vertex
    assert!(path.len() == n || path[path.len() - 1].0 != path[0].0);
}
#[cfg(kani)] #[kani::proof] #[kani::unwind(10)]
fn c04_k_ring_to_path_0() { body_ring_to_path(0, 0); }
#[cfg(kani)] #[kani::proof] #[kani::unwind(10)]
fn c04_k_ring_to_path_4() { body_ring_to_path(4, 0); }
#[cfg(kani)] #[kani::proof] #[kani::unwind(10)]
fn c04_k_ring_to_path_4_repeated_closing_vertex() { body_ring_to_path(4, 1); }
#[cfg(kani)] #[kani::proof] #[kani::unwind(10)]
fn c04_k_ring_to_path_3_twice_repeated_closing_vertex() { body_ring_to_path(3, 2); }

/// shape -> polygon: first path is the exterior, the rest are holes; every ring is closed and has the
/// REVERSED vertex order (i_overlay: outer clockwise / holes counter-clockwise, geo: the opposite)
#[cfg(kani)]
#[kani::proof]
#[kani::unwind(10)]
fn c04_k_polygon_from_shape() {
    let mk = |n: usize, off: f64| { let mut p = Vec::with_capacity(8); let mut i = 0; while i < n { p.push(BoolOpsCoord(Coord { x: off + i as f64, y: off * 2.0 - i as f64 })); i += 1; } p };
    let mut shape = Vec::with_capacity(2);
    shape.push(mk(4, 0.0));
    shape.push(mk(3, 100.0));
    let e: Vec<Coord<f64>> = { let p = mk(4, 0.0); let mut v = Vec::with_capacity(4); let mut i = 0; while i < 4 { v.push(p[i].0); i += 1; } v };
    let h: Vec<Coord<f64>> = { let p = mk(3, 100.0); let mut v = Vec::with_capacity(4); let mut i = 0; while i < 3 { v.push(p[i].0); i += 1; } v };
    let poly = polygon_from_shape(shape);
    assert!(poly.interiors().len() == 1);
    let (ex, ho) = (&poly.exterior().0, &poly.interiors()[0].0);
    assert!(ex.len() == 5 && ex[0] == ex[4] && ho.len() == 4 && ho[0] == ho[3]);
    // closed [p0 p1 p2 p3 p0] reversed = [p0 p3 p2 p1 p0]
    assert!(ex[0] == e[0] && ex[1] == e[3] && ex[2] == e[2] && ex[3] == e[1]);
    assert!(ho[0] == h[0] && ho[1] == h[2] && ho[2] == h[1]);
    // an empty shape is the empty polygon
    let empty = polygon_from_shape(Vec::<Vec<BoolOpsCoord<f64>>>::new());
    assert!(empty.exterior().0.is_empty() && empty.interiors().is_empty());
}

#[cfg(kani)]
#[kani::proof]
#[kani::unwind(10)]
fn c04_k_line_string_from_path() {
    let mut p = Vec::with_capacity(4);
    p.push(BoolOpsCoord(Coord { x: 1.0, y: 2.0 })); p.push(BoolOpsCoord(Coord { x: 3.0, y: 4.0 })); p.push(BoolOpsCoord(Coord { x: 5.0, y: 6.0 }));
    let ls = line_string_from_path(p);
    assert!(ls.0.len() == 3 && ls.0[0] == Coord { x: 1.0, y: 2.0 } && ls.0[1] == Coord { x: 3.0, y: 4.0 } && ls.0[2] == Coord { x: 5.0, y: 6.0 });
}

/// the four operations map to the engine's rules of the same name (complete: 4 cases)
#[cfg(kani)]
#[kani::proof]
fn c04_k_op_type_to_overlay_rule() {
    assert!(matches!(OverlayRule::from(OpType::Intersection), OverlayRule::Intersect));
    assert!(matches!(OverlayRule::from(OpType::Union), OverlayRule::Union));
    assert!(matches!(OverlayRule::from(OpType::Difference), OverlayRule::Difference));
    assert!(matches!(OverlayRule::from(OpType::Xor), OverlayRule::Xor));
}

#[cfg(kani)]
include!(concat!(env!("GEO_VERIF_DIR"), "/.work/playback/pb_c04_convert.rs"));
