// Harnesses for the private accumulator of geo::algorithm::centroid (property C06).
// Decided here: the dimension-dominance algebra of the accumulator (complete over dimensions x finite f64 up to 1e100),
// None <=> nothing added, the early-outs of the add_* methods, the zero-area fall-back.  The numeric clauses
// (centre of mass within tolerance, hull containment, scaling covariance) are NOT decided.
use super::*;
use crate::dimensions::Dimensions;
use crate::Centroid;
use geo_types::{Coord, CoordNum, Line, LineString, MultiLineString, MultiPoint, Point, Polygon};

include!(concat!(env!("GEO_VERIF_DIR"), "/contracts/kani/common.rs"));

#[cfg(kani)]
fn any_dim() -> Dimensions {
    let k: u8 = kani::any();
    kani::assume(k < 4);
    match k { 0 => Dimensions::Empty, 1 => Dimensions::ZeroDimensional, 2 => Dimensions::OneDimensional, _ => Dimensions::TwoDimensional }
}
#[cfg(kani)]
fn any_f() -> f64 { let v: f64 = kani::any(); kani::assume(v.is_finite() && v.abs() <= 1.0e100); v }
#[cfg(kani)]
fn any_wc() -> WeightedCentroid<f64> {
    WeightedCentroid { weight: any_f(), accumulated: Coord { x: any_f(), y: any_f() }, dimensions: any_dim() }
}

/// add_assign / sub_assign: higher dimension wins, lower is ignored, equal dimensions combine componentwise
#[cfg(kani)]
#[kani::proof]
fn c06_k_weighted_centroid_algebra() {
    let (a, b) = (any_wc(), any_wc());
    let sub: bool = kani::any();
    let mut r = WeightedCentroid { weight: a.weight, accumulated: a.accumulated, dimensions: a.dimensions };
    let b2 = WeightedCentroid { weight: b.weight, accumulated: b.accumulated, dimensions: b.dimensions };
    if sub { r.sub_assign(b2) } else { r.add_assign(b2) }
    if a.dimensions < b.dimensions {
        assert!(r.dimensions == b.dimensions && r.weight.to_bits() == b.weight.to_bits());
        assert!(r.accumulated.x.to_bits() == b.accumulated.x.to_bits() && r.accumulated.y.to_bits() == b.accumulated.y.to_bits());
    } else if a.dimensions > b.dimensions {
        assert!(r.dimensions == a.dimensions && r.weight.to_bits() == a.weight.to_bits());
        assert!(r.accumulated.x.to_bits() == a.accumulated.x.to_bits() && r.accumulated.y.to_bits() == a.accumulated.y.to_bits());
    } else {
        assert!(r.dimensions == a.dimensions);
        let w = if sub { a.weight - b.weight } else { a.weight + b.weight };
        let x = if sub { a.accumulated.x - b.accumulated.x } else { a.accumulated.x + b.accumulated.x };
        assert!(r.weight.to_bits() == w.to_bits() || (r.weight.is_nan() && w.is_nan()));
        assert!(r.accumulated.x.to_bits() == x.to_bits() || (r.accumulated.x.is_nan() && x.is_nan()));
    }
}

/// None exactly when nothing was added; dimensions track the highest-dimensional contribution
#[cfg(kani)]
#[kani::proof]
fn c06_k_operation_none_iff_empty() {
    let mut op = CentroidOperation::<f64>::new();
    assert!(op.centroid().is_none() && op.centroid_dimensions() == Dimensions::Empty);
    let c = Coord { x: 3.0, y: -2.0 };
    op.add_coord(c);
    assert!(op.centroid() == Some(Point(c)) && op.centroid_dimensions() == Dimensions::ZeroDimensional);
    // a second, higher-dimensional contribution replaces the points; a lower one is ignored
    let (d, w) = (any_dim(), 2.0);
    kani::assume(d != Dimensions::Empty);
    op.add_centroid(d, Coord { x: 10.0, y: 10.0 }, w);
    if d == Dimensions::ZeroDimensional {
        assert!(op.centroid() == Some(Point(Coord { x: (3.0 + 20.0) / 3.0, y: (-2.0 + 20.0) / 3.0 })));
    } else {
        assert!(op.centroid() == Some(Point(Coord { x: 10.0, y: 10.0 })) && op.centroid_dimensions() == d);
    }
    op.add_coord(Coord { x: 100.0, y: 100.0 });
    if d != Dimensions::ZeroDimensional { assert!(op.centroid() == Some(Point(Coord { x: 10.0, y: 10.0 }))); }
}

/// early-outs: points are ignored once something linear or areal was added, linear members once something areal
/// was added -- and ONLY then.  A MultiLineString / LineString / Line added to a linear state contributes.
#[cfg(kani)]
#[kani::proof]
#[kani::unwind(6)]
#[kani::stub(f64::hypot, hypot_model)]
fn c06_k_operation_early_outs() {
    let d0 = any_dim();
    kani::assume(d0 != Dimensions::Empty);
    let mk = || { let mut op = CentroidOperation::<f64>::new(); op.add_centroid(d0, Coord { x: 1.0, y: 1.0 }, 5.0); op };
    // line (0,0)-(3,4): length 5, midpoint (1.5, 2)
    let mut lv = Vec::with_capacity(2); lv.push(Coord { x: 0.0, y: 0.0 }); lv.push(Coord { x: 3.0, y: 4.0 });
    let ls = LineString(lv);
    let mut mv = Vec::with_capacity(1); mv.push(ls.clone());
    let mls = MultiLineString(mv);
    let mut pv = Vec::with_capacity(1); pv.push(Point(Coord { x: 9.0, y: 9.0 }));
    let mp = MultiPoint(pv);
    let want_linear = match d0 {
        Dimensions::TwoDimensional => Coord { x: 1.0, y: 1.0 },
        Dimensions::OneDimensional => Coord { x: (5.0 + 7.5) / 10.0, y: (5.0 + 10.0) / 10.0 },
        _ => Coord { x: 1.5, y: 2.0 },
    };
    let mut a = mk(); a.add_line_string(&ls);
    assert!(a.centroid() == Some(Point(want_linear)));
    let mut b = mk(); b.add_multi_line_string(&mls);
    assert!(b.centroid() == Some(Point(want_linear)));
    let mut c = mk(); c.add_line(&Line::new(Coord { x: 0.0, y: 0.0 }, Coord { x: 3.0, y: 4.0 }));
    assert!(c.centroid() == Some(Point(want_linear)));
    let mut e = mk(); e.add_multi_point(&mp);
    let want_pt = if d0 == Dimensions::ZeroDimensional { Coord { x: (5.0 + 9.0) / 6.0, y: (5.0 + 9.0) / 6.0 } } else { Coord { x: 1.0, y: 1.0 } };
    assert!(e.centroid() == Some(Point(want_pt)));
}

/// a polygon whose hole covers its shell exactly has zero area and falls back to the centroid of its OUTLINE
/// (length-weighted segment midpoints), as a one-dimensional contribution
#[cfg(kani)]
#[kani::proof]
#[kani::unwind(8)]
#[kani::stub(f64::hypot, hypot_model)]
fn c06_k_zero_area_polygon_falls_back_to_outline() {
    let c = |x: f64, y: f64| Coord { x, y };
    // right triangle (0,0) (3,0) (0,4): outline = sides 3, 5, 4 with midpoints (1.5,0) (1.5,2) (0,2)
    let p = Polygon::new(LineString(vec![c(0., 0.), c(3., 0.), c(0., 4.), c(0., 0.)]), vec![LineString(vec![c(0., 0.), c(3., 0.), c(0., 4.), c(0., 0.)])]);
    let mut op = CentroidOperation::<f64>::new();
    op.add_polygon(&p);
    assert!(op.centroid_dimensions() == Dimensions::OneDimensional);
    let want = Coord { x: (3.0 * 1.5 + 5.0 * 1.5 + 4.0 * 0.0) / 12.0, y: (3.0 * 0.0 + 5.0 * 2.0 + 4.0 * 2.0) / 12.0 };
    assert!(op.centroid() == Some(Point(want)));
    // and a real areal member dominates it
    op.add_centroid(Dimensions::TwoDimensional, Coord { x: 7.0, y: 7.0 }, 2.0);
    assert!(op.centroid() == Some(Point(Coord { x: 7.0, y: 7.0 })));
}

/// scaling by a power of two is exact in floating point, so the centroid must scale EXACTLY with the geometry
/// (C06 "moves with the geometry under uniform scaling", C13 commutation clause): polygon with an off-centre
/// hole and a bare triangle ring, at scale 1 and 2^-28 (features ~1e-8 across)
#[cfg(kani)]
#[kani::proof]
#[kani::unwind(8)]
fn c06_k_centroid_scales_exactly_by_power_of_two() {
    let k = 1.0 / 268435456.0;     // 2^-28
    let c = |x: f64, y: f64| Coord { x, y };
    let big = Polygon::new(LineString(vec![c(0., 0.), c(4., 0.), c(4., 4.), c(0., 4.), c(0., 0.)]),
                           vec![LineString(vec![c(1., 1.), c(1., 2.), c(2., 2.), c(2., 1.), c(1., 1.)])]);
    let small = Polygon::new(LineString(vec![c(0., 0.), c(4. * k, 0.), c(4. * k, 4. * k), c(0., 4. * k), c(0., 0.)]),
                             vec![LineString(vec![c(k, k), c(k, 2. * k), c(2. * k, 2. * k), c(2. * k, k), c(k, k)])]);
    let (cb, cs) = (big.centroid().unwrap(), small.centroid().unwrap());
    assert!(cs.x() == cb.x() * k && cs.y() == cb.y() * k);
    let tb = Polygon::new(LineString(vec![c(0., 0.), c(6., 0.), c(0., 3.), c(0., 0.)]), vec![]);
    let ts = Polygon::new(LineString(vec![c(0., 0.), c(6. * k, 0.), c(0., 3. * k), c(0., 0.)]), vec![]);
    let (cb, cs) = (tb.centroid().unwrap(), ts.centroid().unwrap());
    assert!(cb.x() == 2.0 && cb.y() == 1.0);
    assert!(cs.x() == 2.0 * k && cs.y() == 1.0 * k);
}

/// public API: centroid is None exactly for empty geometries
#[cfg(kani)]
#[kani::proof]
#[kani::unwind(6)]
#[kani::stub(f64::hypot, hypot_model)]
fn c06_k_centroid_none_iff_empty() {
    assert!(LineString::<f64>(Vec::new()).centroid().is_none());
    assert!(MultiPoint::<f64>(Vec::new()).centroid().is_none());
    assert!(Polygon::<f64>::new(LineString(Vec::new()), Vec::new()).centroid().is_none());
    assert!(MultiLineString::<f64>(Vec::new()).centroid().is_none());
    let mut v = Vec::with_capacity(1); v.push(Coord { x: 2.0, y: 5.0 });
    assert!(LineString(v).centroid() == Some(Point(Coord { x: 2.0, y: 5.0 })));
}

#[cfg(kani)]
include!(concat!(env!("GEO_VERIF_DIR"), "/.work/playback/pb_c06.rs"));
