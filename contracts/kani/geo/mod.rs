// placeholder
