// Kani harnesses for geo (included from geo/src/lib.rs under cfg(kani)).
use crate::*;
use crate::coordinate_position::{coord_pos_relative_to_ring, CoordPos, CoordinatePosition};
use crate::kernels::{Kernel, Orientation, RobustKernel, SimpleKernel};
use geo_types::{Coord, CoordNum, Geometry, GeometryCollection, Line, LineString, MultiLineString, MultiPoint, MultiPolygon, Point, Polygon, Rect, Triangle};
use std::vec::Vec;

include!(concat!(env!("GEO_VERIF_DIR"), "/contracts/kani/common.rs"));
include!(concat!(env!("GEO_VERIF_DIR"), "/contracts/kani/spec.rs"));
include!(concat!(env!("GEO_VERIF_DIR"), "/contracts/kani/geo/c02.rs"));
include!(concat!(env!("GEO_VERIF_DIR"), "/contracts/kani/geo/c13.rs"));
include!(concat!(env!("GEO_VERIF_DIR"), "/contracts/kani/geo/c05.rs"));
include!(concat!(env!("GEO_VERIF_DIR"), "/contracts/kani/geo/c11.rs"));
include!(concat!(env!("GEO_VERIF_DIR"), "/contracts/kani/geo/c01.rs"));
include!(concat!(env!("GEO_VERIF_DIR"), "/contracts/kani/geo/c19.rs"));
include!(concat!(env!("GEO_VERIF_DIR"), "/contracts/kani/geo/c15.rs"));
include!(concat!(env!("GEO_VERIF_DIR"), "/contracts/kani/geo/c07.rs"));
include!(concat!(env!("GEO_VERIF_DIR"), "/contracts/kani/geo/c12.rs"));

#[cfg(kani)]
include!(concat!(env!("GEO_VERIF_DIR"), "/.work/playback/geo.rs"));
