// ======================================================================================
// C12 -- closest_point: the selection logic (Closest::best_of_two, closest_of), "Intersection exactly when the
// point intersects", "Indeterminate only for zero-length input", result on the geometry -- for points / axis-
// parallel lines on the integer lattice (where the distance kernel is exact: f64::hypot is modelled, exactly on
// axis-parallel arguments) and a menu of literal line strings.  interior_point is NOT decided (sweep line).
// ======================================================================================
use crate::closest_point::ClosestPoint;
use crate::Closest;

#[cfg(kani)]
fn ax(v: i8) -> f64 { v as f64 }
#[cfg(kani)]
fn small_i8() -> i8 { let v: i8 = kani::any(); kani::assume(-6 <= v && v <= 6); v }

/// best_of_two: an Intersection wins (the receiver first), Indeterminate always loses, of two SinglePoints the
/// one nearer to p wins and a tie keeps the receiver.  Complete over the variants x lattice points on the x-axis.
#[cfg(kani)]
#[kani::proof]
#[kani::stub(f64::hypot, hypot_model)]
fn c12_k_best_of_two() {
    let mk = |k: u8, x: i8| match k { 0 => Closest::Indeterminate, 1 => Closest::Intersection(Point::new(ax(x), 0.0)), _ => Closest::SinglePoint(Point::new(ax(x), 0.0)) };
    let (ka, kb): (u8, u8) = (kani::any(), kani::any());
    kani::assume(ka < 3 && kb < 3);
    let (xa, xb, xp) = (small_i8(), small_i8(), small_i8());
    let (a, b) = (mk(ka, xa), mk(kb, xb));
    let p = Point::new(ax(xp), 0.0);
    let r = a.best_of_two(&b, p);
    let want = if ka == 0 { b } else if ka == 1 { a } else if kb == 0 { a } else if kb == 1 { b }
               else if (xa as i32 - xp as i32).abs() <= (xb as i32 - xp as i32).abs() { a } else { b };
    assert!(r == want);
    // in particular: Indeterminate is returned only when BOTH are Indeterminate
    assert!((r == Closest::Indeterminate) == (ka == 0 && kb == 0));
}

/// Point and Line (axis-parallel, lattice): Intersection(p) exactly when p is on the geometry, otherwise the
/// nearest point of it; Indeterminate exactly for the zero-length line
#[cfg(kani)]
#[kani::proof]
#[kani::stub(f64::hypot, hypot_model)]
#[kani::stub(robust::orient2d, robust_orient2d_model)]
fn c12_k_point_and_axis_line() {
    let (a, b, px, py) = (small_i8(), small_i8(), small_i8(), small_i8());
    let p = Point::new(ax(px), ax(py));
    let q = Point::new(ax(a), 0.0);
    assert!(q.closest_point(&p) == if px == a && py == 0 { Closest::Intersection(q) } else { Closest::SinglePoint(q) });
    let l = Line::new(Coord { x: ax(a), y: 0.0 }, Coord { x: ax(b), y: 0.0 });
    let r = l.closest_point(&p);
    if a == b {
        assert!(r == Closest::Indeterminate);
    } else {
        let (lo, hi) = if a < b { (a, b) } else { (b, a) };
        let cx = if px < lo { lo } else if px > hi { hi } else { px };
        let on = py == 0 && lo <= px && px <= hi;
        match r {
            Closest::Intersection(c) => assert!(on && c == p),
            Closest::SinglePoint(c) => assert!(!on && c.x() == ax(cx) && c.y() == 0.0),
            Closest::Indeterminate => assert!(false),
        }
    }
}

/// a degenerate component that is NOT the first one must not wipe the best candidate found so far
#[cfg(kani)]
#[kani::proof]
#[kani::unwind(8)]
#[kani::stub(f64::hypot, hypot_model)]
#[kani::stub(robust::orient2d, robust_orient2d_model)]
fn c12_k_linestring_with_repeated_last_vertex() {
    let ls = LineString(vec![Coord { x: 0.0, y: 0.0 }, Coord { x: 4.0, y: 0.0 }, Coord { x: 4.0, y: 3.0 }, Coord { x: 4.0, y: 3.0 }]);
    // nearest point of the polyline to (2,-5) is (2,0)
    assert!(ls.closest_point(&Point::new(2.0, -5.0)) == Closest::SinglePoint(Point::new(2.0, 0.0)));
    // a point on it
    assert!(ls.closest_point(&Point::new(4.0, 1.0)) == Closest::Intersection(Point::new(4.0, 1.0)));
    // zero-length line string: Indeterminate; empty: Indeterminate
    assert!(LineString(vec![Coord { x: 1.0, y: 1.0 }, Coord { x: 1.0, y: 1.0 }]).closest_point(&Point::new(0.0, 0.0)) == Closest::Indeterminate);
    assert!(LineString::<f64>(vec![]).closest_point(&Point::new(0.0, 0.0)) == Closest::Indeterminate);
}

/// Polygon with a hole: a query point inside the hole is nearest to the HOLE ring (not to the shell); a point of the body or
/// of a ring is an Intersection; a point outside is nearest to the shell.  Bounded: one literal shape, literal query points.
/// NOT REGISTERED: measured 2026-10-02, CBMC does not finish it in 600 s (Chain<slice::Iter, Once> + ring walks), so seed C12-6 stays undetected.
#[cfg(kani)]
#[kani::proof]
#[kani::unwind(8)]
#[kani::stub(f64::hypot, hypot_model)]
#[kani::stub(robust::orient2d, robust_orient2d_model)]
fn c12_k_polygon_with_hole_nearest_ring() {
    let shell = LineString(vec![Coord { x: 0.0, y: 0.0 }, Coord { x: 16.0, y: 0.0 }, Coord { x: 16.0, y: 16.0 }, Coord { x: 0.0, y: 16.0 }, Coord { x: 0.0, y: 0.0 }]);
    let hole = LineString(vec![Coord { x: 6.0, y: 6.0 }, Coord { x: 6.0, y: 10.0 }, Coord { x: 10.0, y: 10.0 }, Coord { x: 10.0, y: 6.0 }, Coord { x: 6.0, y: 6.0 }]);
    let poly = Polygon::new(shell, vec![hole]);
    // inside the hole: the nearest point of the polygon is on the hole ring
    assert!(poly.closest_point(&Point::new(8.0, 7.0)) == Closest::SinglePoint(Point::new(8.0, 6.0)));
    assert!(poly.closest_point(&Point::new(9.0, 8.0)) == Closest::SinglePoint(Point::new(10.0, 8.0)));
    // outside the shell: on the shell
    assert!(poly.closest_point(&Point::new(20.0, 8.0)) == Closest::SinglePoint(Point::new(16.0, 8.0)));
    // in the body / on the hole ring: the point itself
    assert!(poly.closest_point(&Point::new(3.0, 3.0)) == Closest::Intersection(Point::new(3.0, 3.0)));
    assert!(poly.closest_point(&Point::new(6.0, 8.0)) == Closest::Intersection(Point::new(6.0, 8.0)));
}

/// Rect / Triangle: Intersection(p) exactly when p intersects; otherwise a point on the boundary
#[cfg(kani)]
#[kani::proof]
#[kani::unwind(8)]
#[kani::stub(f64::hypot, hypot_model)]
#[kani::stub(robust::orient2d, robust_orient2d_model)]
fn c12_k_rect_intersection_iff_intersects() {
    let (px, py) = (small_i8(), small_i8());
    let p = Point::new(ax(px), ax(py));
    let r = Rect::new(Coord { x: -2.0, y: -1.0 }, Coord { x: 3.0, y: 2.0 });
    let inside = -2 <= px && px <= 3 && -1 <= py && py <= 2;
    match r.closest_point(&p) {
        Closest::Intersection(c) => assert!(inside && c == p),
        Closest::SinglePoint(c) => {
            assert!(!inside);
            // on the boundary, and the nearest boundary point of an axis-parallel rectangle is the clamp
            let cx = if px < -2 { -2 } else if px > 3 { 3 } else { px };
            let cy = if py < -1 { -1 } else if py > 2 { 2 } else { py };
            assert!(c.x() == ax(cx) && c.y() == ax(cy));
        }
        Closest::Indeterminate => assert!(false),
    }
}
