// scratch probes: which whole-algorithm calls finish in CBMC on LITERAL input?
use crate::relate::Relate;
use crate::{BooleanOps, Area, InteriorPoint, Simplify};

#[cfg(kani)]
fn pc(x: f64, y: f64) -> Coord<f64> { Coord { x, y } }
#[cfg(kani)]
fn sq(o: f64, s: f64) -> Polygon<f64> { Polygon::new(LineString(vec![pc(o, o), pc(o + s, o), pc(o + s, o + s), pc(o, o + s), pc(o, o)]), vec![]) }

/// deterministic, constant-foldable square root (Newton; CBMC's own sqrt is a constraint, not a computation)
#[cfg(kani)]
fn hypot_newton(a: f64, b: f64) -> f64 {
    if b == 0.0 { return a.abs(); }
    if a == 0.0 { return b.abs(); }
    let x = a * a + b * b;
    let mut r = if x > 1.0 { x } else { 1.0 };
    let mut i = 0;
    while i < 40 { r = 0.5 * (r + x / r); i += 1; }
    r
}

#[cfg(kani)] #[kani::proof] #[kani::unwind(50)]
fn probe_relate_poly_point() {
    let m = sq(0.0, 4.0).relate(&Point(pc(2.0, 2.0)));
    assert!(m.is_contains());
}
#[cfg(kani)] #[kani::proof] #[kani::unwind(50)]
fn probe_relate_poly_poly() {
    let m = sq(0.0, 4.0).relate(&sq(2.0, 4.0));
    assert!(m.is_intersects() && !m.is_contains());
}
#[cfg(kani)] #[kani::proof] #[kani::unwind(50)]
fn probe_boolop_intersection() {
    let i = sq(0.0, 4.0).intersection(&sq(2.0, 4.0));
    assert!(i.unsigned_area() == 4.0);
}
#[cfg(kani)] #[kani::proof] #[kani::unwind(12)]
fn probe_gc_bounding_rect() {
    let gc = GeometryCollection(vec![Geometry::Point(Point(pc(1.0, 2.0))), Geometry::MultiPoint(MultiPoint(vec![])), Geometry::Point(Point(pc(0.0, 5.0)))]);
    let r = gc.bounding_rect().unwrap();
    assert!(r.min() == pc(0.0, 2.0) && r.max() == pc(1.0, 5.0));
}
#[cfg(kani)] #[kani::proof] #[kani::unwind(50)] #[kani::stub(f64::hypot, hypot_newton)]
fn probe_simplify() {
    let ls = LineString(vec![pc(0., 0.), pc(5., 4.), pc(11., 5.5), pc(17.3, 3.2), pc(27.8, 0.1)]);
    let out = ls.simplify(1.0);
    assert!(out.0.len() == 4);
}
#[cfg(kani)] #[kani::proof] #[kani::unwind(50)] #[kani::stub(f64::hypot, hypot_newton)]
fn probe_polygon_distance() {
    use crate::line_measures::{Distance, Euclidean};
    let d = Euclidean.distance(&sq(0.0, 4.0), &sq(7.0, 2.0));
    assert!(d > 4.2 && d < 4.3);
}
#[cfg(kani)] #[kani::proof] #[kani::unwind(50)]
fn probe_interior_point() {
    let p = sq(0.0, 4.0).interior_point();
    assert!(p.is_some());
}
