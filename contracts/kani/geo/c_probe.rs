// scratch probes (not registered)
use crate::monotone::monotone_subdivision;
use crate::triangulate_earcut::TriangulateEarcut;
use crate::Area;
#[cfg(kani)]
fn pc(x: f64, y: f64) -> Coord<f64> { Coord { x, y } }

#[cfg(kani)] #[kani::proof] #[kani::unwind(30)] #[kani::stub(robust::orient2d, robust_orient2d_model)]
fn probe_monotone() {
    // concave (L-shaped) polygon
    let p = Polygon::new(LineString(vec![pc(0., 0.), pc(6., 0.), pc(6., 2.), pc(2., 2.), pc(2., 6.), pc(0., 6.), pc(0., 0.)]), vec![]);
    let pieces = monotone_subdivision([p]);
    let mut a = 0.0;
    for m in pieces { a += m.into_polygon().unsigned_area(); }
    assert!(a == 20.0);
}
#[cfg(kani)] #[kani::proof] #[kani::unwind(30)]
fn probe_earcut() {
    let p = Polygon::new(LineString(vec![pc(0., 0.), pc(6., 0.), pc(6., 2.), pc(2., 2.), pc(2., 6.), pc(0., 6.), pc(0., 0.)]), vec![]);
    let tris = p.earcut_triangles();
    let mut a = 0.0;
    for t in &tris { a += t.unsigned_area(); }
    assert!(a == 20.0 && tris.len() == 4);
}
