// ======================================================================================
// Harnesses for the private items of relate::geomgraph (included from the guarded hook in
// geo/src/algorithm/relate/geomgraph/mod.rs).  Properties C01 and C17: label / topology-position
// algebra (finite domains: K-complete), quadrant and edge-end ordering on the lattice.
// ======================================================================================
use super::*;
use crate::kernels::{Kernel, Orientation};
use crate::GeoNum;
use geo_types::Coord;

#[cfg(kani)]
fn any_opt_pos() -> Option<CoordPos> {
    let k: u8 = kani::any();
    kani::assume(k < 4);
    match k { 0 => None, 1 => Some(CoordPos::Inside), 2 => Some(CoordPos::OnBoundary), _ => Some(CoordPos::Outside) }
}
#[cfg(kani)]
fn any_cpos() -> CoordPos {
    let k: u8 = kani::any();
    kani::assume(k < 3);
    match k { 0 => CoordPos::Inside, 1 => CoordPos::OnBoundary, _ => CoordPos::Outside }
}
#[cfg(kani)]
fn any_topo() -> TopologyPosition {
    if kani::any() { TopologyPosition::Area { on: any_opt_pos(), left: any_opt_pos(), right: any_opt_pos() } }
    else { TopologyPosition::LineOrPoint { on: any_opt_pos() } }
}
/// abstract view: (is_area, on, left, right)
#[cfg(kani)]
fn view(t: &TopologyPosition) -> (bool, Option<CoordPos>, Option<CoordPos>, Option<CoordPos>) {
    match t {
        TopologyPosition::Area { on, left, right } => (true, *on, *left, *right),
        TopologyPosition::LineOrPoint { on } => (false, *on, None, None),
    }
}

/// every TopologyPosition method against the view (all 68 values)
#[cfg(kani)]
#[kani::proof]
fn c01_k_topology_position() {
    let t0 = any_topo();
    let (area, on, left, right) = view(&t0);
    assert!(t0.is_area() == area && t0.is_line() == !area);
    assert!(t0.is_empty() == (on.is_none() && left.is_none() && right.is_none()));
    assert!(t0.is_any_empty() == (on.is_none() || (area && (left.is_none() || right.is_none()))));
    assert!(t0.get(Direction::On) == on);
    if area { assert!(t0.get(Direction::Left) == left && t0.get(Direction::Right) == right); }
    // flip: swaps left and right, nothing else; involutive
    let mut t = t0; t.flip();
    assert!(view(&t) == (area, on, right, left));
    t.flip();
    assert!(t == t0);
    // set_all_positions / _if_empty: only empty slots change in the second form
    let p = any_cpos();
    let mut t = t0; t.set_all_positions(p);
    assert!(view(&t) == (area, Some(p), if area { Some(p) } else { None }, if area { Some(p) } else { None }));
    let mut t = t0; t.set_all_positions_if_empty(p);
    assert!(view(&t) == (area, on.or(Some(p)), if area { left.or(Some(p)) } else { None }, if area { right.or(Some(p)) } else { None }));
    let mut t = t0; t.set_on_position(p);
    assert!(view(&t) == (area, Some(p), left, right));
    if area {
        let mut t = t0; t.set_position(Direction::Left, p);
        assert!(view(&t) == (area, on, Some(p), right));
        let mut t = t0; t.set_position(Direction::Right, p);
        assert!(view(&t) == (area, on, left, Some(p)));
        let (a, b, c) = (any_cpos(), any_cpos(), any_cpos());
        let mut t = t0; t.set_locations(a, b, c);
        assert!(view(&t) == (true, Some(a), Some(b), Some(c)));
    }
    let mut t = t0; t.set_position(Direction::On, p);
    assert!(view(&t) == (area, Some(p), left, right));
}

#[cfg(kani)]
fn any_label() -> Label {
    let mut l = if kani::any() { Label::empty_area() } else { Label::empty_line_or_point() };
    let (a, b) = (any_topo(), any_topo());
    // both operands of a label have the same kind only by construction through `new`; mixed labels arise from
    // merging, so all combinations are explored
    l = Label::new(0, a);
    let mut l2 = Label::new(1, b);
    // build the general label: index 0 from l, index 1 from l2
    l2.swap_args();
    let mut out = l.clone();
    out.swap_args();          // now index 1 holds a
    out = Label::new(0, a);
    // (Label has no public field setter besides these; set index 1 through a swapped `new`)
    let mut tmp = Label::new(0, b);
    tmp.swap_args();          // index 1 = b, index 0 = empty of b's kind
    // combine: if kinds agree, index 0 of tmp is empty and can be filled slot by slot from a
    out = tmp;
    match a {
        TopologyPosition::Area { on, left, right } if out.is_geom_area(0) => {
            if let Some(p) = on { out.set_position(0, Direction::On, p); }
            if let Some(p) = left { out.set_position(0, Direction::Left, p); }
            if let Some(p) = right { out.set_position(0, Direction::Right, p); }
        }
        TopologyPosition::LineOrPoint { on } if out.is_line(0) => {
            if let Some(p) = on { out.set_on_position(0, p); }
        }
        _ => {}
    }
    out
}

/// Label: swap_args exchanges the two operands (and is an involution) -- what PreparedGeometry relies on
/// when a cached graph is reused in the other argument position (C17); flip / setters address one operand
#[cfg(kani)]
#[kani::proof]
fn c17_k_label_swap_and_frame() {
    let l0 = any_label();
    let area0 = l0.is_geom_area(0);
    let area1 = l0.is_geom_area(1);
    let mut l = l0.clone();
    l.swap_args();
    assert!(l.is_geom_area(0) == area1 && l.is_geom_area(1) == area0);
    assert!(l.on_position(0) == l0.on_position(1) && l.on_position(1) == l0.on_position(0));
    if area0 { assert!(l.position(1, Direction::Left) == l0.position(0, Direction::Left) && l.position(1, Direction::Right) == l0.position(0, Direction::Right)); }
    if area1 { assert!(l.position(0, Direction::Left) == l0.position(1, Direction::Left) && l.position(0, Direction::Right) == l0.position(1, Direction::Right)); }
    assert!(l.is_empty(0) == l0.is_empty(1) && l.is_any_empty(1) == l0.is_any_empty(0));
    assert!(l.geometry_count() == l0.geometry_count());
    l.swap_args();
    assert!(l == l0);
    // frame: a setter for operand i leaves operand 1-i unchanged
    let i: usize = kani::any();
    kani::assume(i < 2);
    let p = any_cpos();
    let mut l = l0.clone();
    l.set_all_positions_if_empty(i, p);
    assert!(l.on_position(1 - i) == l0.on_position(1 - i) && l.is_empty(1 - i) == l0.is_empty(1 - i));
    assert!(l.on_position(i) == l0.on_position(i).or(Some(p)));
    let mut l = l0.clone();
    l.set_on_position(i, p);
    assert!(l.on_position(1 - i) == l0.on_position(1 - i) && l.on_position(i) == Some(p));
    // flip is applied to both operands and is an involution
    let mut l = l0.clone();
    l.flip();
    if area0 { assert!(l.position(0, Direction::Left) == l0.position(0, Direction::Right)); }
    if area1 { assert!(l.position(1, Direction::Right) == l0.position(1, Direction::Left)); }
    l.flip();
    assert!(l == l0);
    assert!(l0.is_area() == (area0 || area1));
}

/// Label::new(i, pos): operand i is pos, the other operand is empty and of the same kind
#[cfg(kani)]
#[kani::proof]
fn c01_k_label_new() {
    let t = any_topo();
    let i: usize = kani::any();
    kani::assume(i < 2);
    let l = Label::new(i, t);
    assert!(l.is_empty(1 - i));
    assert!(l.is_geom_area(1 - i) == t.is_area() && l.is_geom_area(i) == t.is_area());
    assert!(l.on_position(i) == t.get(Direction::On));
    assert!(l.geometry_count() == if t.is_empty() { 0 } else { 1 });
}

/// Quadrant::new and the edge-end ordering key agree with the angle order around a node (lattice, exact)
#[cfg(kani)]
#[kani::proof]
fn c01_k_quadrant() {
    let (dx, dy): (i16, i16) = (kani::any(), kani::any());
    let q = Quadrant::new(dx, dy);
    assert!(q.is_none() == (dx == 0 && dy == 0));
    if let Some(q) = q {
        assert!(match q { Quadrant::NE => dx >= 0 && dy >= 0, Quadrant::NW => dx < 0 && dy >= 0, Quadrant::SW => dx < 0 && dy < 0, Quadrant::SE => dx >= 0 && dy < 0 });
    }
}

/// C17: the label swap of a cached edge / node (what `clone_for_arg_index` applies when the prepared geometry
/// is used in the other argument position) exchanges the operands of the label and touches nothing else.
/// (PlanarGraph::clone_for_arg_index itself -- BTreeMap node map + Rc<RefCell> edges -- does not finish
/// symbolic execution in CBMC within 600 s even for one edge; it is NOT under contract.)
#[cfg(kani)]
#[kani::proof]
#[kani::unwind(6)]
fn c17_k_edge_node_swap_label_args() {
    let el = any_label();
    let (a, b) = (Coord { x: 0.0f64, y: 0.0 }, Coord { x: 1.0, y: 2.0 });
    let mut cs = Vec::with_capacity(2); cs.push(a); cs.push(b);
    let mut e = Edge::new(cs, el.clone());
    e.swap_label_args();
    let mut want = el.clone(); want.swap_args();
    assert!(*e.label() == want);
    assert!(e.coords().len() == 2 && e.coords()[0] == a && e.coords()[1] == b && e.is_isolated());
    e.swap_label_args();
    assert!(*e.label() == el);
    let mut n = CoordNode::new(a);
    n.set_label_on_position(0, any_cpos());
    let nl = n.label().clone();
    n.swap_label_args();
    let mut want = nl.clone(); want.swap_args();
    assert!(*n.label() == want && *n.coordinate() == a);
}

/// the edge-end ordering key (sort key of the edge-end star around a node): counter-clockwise angle order
/// starting at the positive x-axis, decided exactly -- quadrant first, orientation sign within a quadrant;
/// antisymmetric, and Equal exactly for parallel same-direction ends.  Complete on the lattice |d| <= 4.
#[cfg(kani)]
fn robust_orient2d_model_gg<T: Into<f64>>(pa: robust::Coord<T>, pb: robust::Coord<T>, pc: robust::Coord<T>) -> f64 {
    let c = |p: robust::Coord<T>| { let (x, y): (f64, f64) = (p.x.into(), p.y.into()); (x as i32, y as i32) };
    let (p, q, r) = (c(pa), c(pb), c(pc));
    ((q.0 - p.0) * (r.1 - q.1) - (q.1 - p.1) * (r.0 - q.0)) as f64
}
#[cfg(kani)]
#[kani::proof]
#[kani::stub(robust::orient2d, robust_orient2d_model_gg)]
fn c01_k_edge_end_angle_order() {
    use std::cmp::Ordering;
    let v: [i8; 6] = kani::any();
    let mut i = 0;
    while i < 6 { kani::assume(-4 <= v[i] && v[i] <= 4); i += 1; }
    let o = Coord { x: v[0] as f64, y: v[1] as f64 };
    let (ux, uy, wx, wy) = (v[2] as i32, v[3] as i32, v[4] as i32, v[5] as i32);
    kani::assume((ux != 0 || uy != 0) && (wx != 0 || wy != 0));
    let a = EdgeEnd::new(o, Coord { x: o.x + ux as f64, y: o.y + uy as f64 }, Label::empty_line_or_point());
    let b = EdgeEnd::new(o, Coord { x: o.x + wx as f64, y: o.y + wy as f64 }, Label::empty_line_or_point());
    let got = a.key().compare_direction(b.key());
    // oracle: quadrant index (NE=0, NW=1, SW=2, SE=3 as in `Quadrant`), then the sign of the cross product
    let quad = |x: i32, y: i32| if y >= 0 { if x >= 0 { 0 } else { 1 } } else { if x < 0 { 2 } else { 3 } };
    let (qa, qb) = (quad(ux, uy), quad(wx, wy));
    let cross = ux * wy - uy * wx;
    let want = if ux == wx && uy == wy { Ordering::Equal }
        else if qa != qb { if qa < qb { Ordering::Less } else { Ordering::Greater } }
        else if cross > 0 { Ordering::Less } else if cross < 0 { Ordering::Greater } else { Ordering::Equal };
    assert!(got == want);
    assert!(b.key().compare_direction(a.key()) == want.reverse());
}

/// mod-2 boundary rule: determine_boundary is the parity of the count; CoordNode::set_label_boundary toggles
/// (after k applications starting from an unlabelled / exterior node the node is on the boundary iff k is odd)
#[cfg(kani)]
#[kani::proof]
#[kani::unwind(8)]
fn c01_k_mod2_boundary_rule() {
    let k: usize = kani::any();
    assert!(GeometryGraph::<f64>::determine_boundary(k) == if k % 2 == 1 { CoordPos::OnBoundary } else { CoordPos::Inside });
    let mut n = CoordNode::new(Coord { x: 1.0f64, y: 2.0 });
    let g: usize = kani::any();
    kani::assume(g < 2);
    let start_outside: bool = kani::any();
    if start_outside { n.set_label_on_position(g, CoordPos::Outside); }
    let other_before = n.label().on_position(1 - g);
    let mut i = 0;
    while i < 5 {
        n.set_label_boundary(g);
        i += 1;
        assert!(n.label().on_position(g) == Some(if i % 2 == 1 { CoordPos::OnBoundary } else { CoordPos::Inside }));
        assert!(n.label().on_position(1 - g) == other_before);
    }
}

#[cfg(kani)]
include!(concat!(env!("GEO_VERIF_DIR"), "/.work/playback/pb_geomgraph.rs"));
