// ======================================================================================
// C05 -- area and ring orientation.
//  * twice_signed_ring_area / winding_order at i16 on a lattice (products fit: exact), symbolic coordinates;
//  * the CoordFloat-only layer (Polygon / Triangle / Multi* / collection areas, orient) at f64 on shapes
//    from a concrete menu at a SYMBOLIC integer offset, start vertex and winding -- the code shifts every ring
//    by its first coordinate, so the products are between constants and stay cheap for SAT, while the
//    sign / abs / hole / sum logic sees every combination.
// ======================================================================================
use crate::algorithm::area::twice_signed_ring_area;
use crate::winding_order::{Winding, WindingOrder};
use crate::orient::{Direction, Orient};

#[cfg(kani)]
fn shoelace2(pts: &[spec::P]) -> spec::S {
    let mut s: spec::S = 0;
    let mut i = 0;
    while i + 1 < pts.len() {
        s += pts[i].x * pts[i + 1].y - pts[i + 1].x * pts[i].y;
        i += 1;
    }
    s
}

// ---- ring area = shoelace sum (exact scalar), 0 for open / short rings -------------------------
#[cfg(kani)]
fn body_ring_area(n: usize, close: bool) {
    let mut ring = lat_ring_i16(n, 5);
    if close && n > 0 { let f = ring.0[0]; ring.0.push(f); }
    let (pts, len) = to_pts(&ring);
    let closed = len > 0 && pts[0] == pts[len - 1];
    let want = if len >= 3 && closed { shoelace2(&pts[..len]) } else { 0 };
    assert!(twice_signed_ring_area(&ring) == want);
}
k_harness!(c05_k_ring_area_closed_3, body_ring_area(3, true));
k_harness!(c05_k_ring_area_closed_4, body_ring_area(4, true));
k_harness!(c05_k_ring_area_open_3, body_ring_area(3, false));
k_harness!(c05_k_ring_area_open_2, body_ring_area(2, false));

// ---- winding_order = sign of the exact signed area (triangles, incl. a repeated vertex anywhere) --
#[cfg(kani)]
fn body_winding_tri(rot: usize, dup: usize) {
    let t = [lat_coord_i16(5), lat_coord_i16(5), lat_coord_i16(5)];
    let mut v = Vec::with_capacity(8);
    let mut i = 0;
    while i < 3 {
        let c = t[(i + rot) % 3];
        v.push(c);
        if dup == i { v.push(c); }           // a repeated vertex
        i += 1;
    }
    let f = v[0];
    v.push(f);
    if dup == 3 { v.push(f); }               // the closing vertex repeated
    let ring = LineString(v);
    let area2 = spec::cross(sp(t[0]), sp(t[1]), sp(t[2]));
    let want = if area2 > 0 { Some(WindingOrder::CounterClockwise) } else if area2 < 0 { Some(WindingOrder::Clockwise) } else { None };
    assert!(ring.winding_order() == want);
    assert!(ring.is_ccw() == (area2 > 0) && ring.is_cw() == (area2 < 0));
    kani::cover!(area2 > 0, "ccw");
}
k_harness!(c05_k_winding_tri_0_none, body_winding_tri(0, 9));
k_harness!(c05_k_winding_tri_1_dup0, body_winding_tri(1, 0));
k_harness!(c05_k_winding_tri_2_dup2, body_winding_tri(2, 2));
k_harness!(c05_k_winding_tri_0_dupclose, body_winding_tri(0, 3));
k_harness!(c05_k_winding_tri_1_dupclose, body_winding_tri(1, 3));
k_harness!(c05_k_winding_tri_2_dupclose, body_winding_tri(2, 3));

#[cfg(kani)]
fn body_make_winding(rot: usize) {
    let t = [lat_coord_i16(5), lat_coord_i16(5), lat_coord_i16(5)];
    let mut v = Vec::with_capacity(8);
    let mut i = 0;
    while i < 3 { v.push(t[(i + rot) % 3]); i += 1; }
    v.push(t[rot % 3]);
    let ring = LineString(v);
    let area2 = spec::cross(sp(t[0]), sp(t[1]), sp(t[2]));
    kani::assume(area2 != 0);
    let mut cw = ring.clone(); cw.make_cw_winding();
    let mut ccw = ring.clone(); ccw.make_ccw_winding();
    assert!(cw.is_cw() && ccw.is_ccw());
    // same coordinates: either unchanged or exactly reversed
    let same = |a: &LineString<i16>, b: &LineString<i16>| a.0.len() == 4 && b.0.len() == 4 && a.0[0] == b.0[0] && a.0[1] == b.0[1] && a.0[2] == b.0[2] && a.0[3] == b.0[3];
    let rev = |a: &LineString<i16>, b: &LineString<i16>| a.0.len() == 4 && b.0.len() == 4 && a.0[0] == b.0[3] && a.0[1] == b.0[2] && a.0[2] == b.0[1] && a.0[3] == b.0[0];
    assert!(if area2 > 0 { same(&ccw, &ring) && rev(&cw, &ring) } else { same(&cw, &ring) && rev(&ccw, &ring) });
    assert!(ring.clone_to_winding_order(WindingOrder::Clockwise).is_cw());
}
k_harness!(c05_k_make_winding_0, body_make_winding(0));

// ---- f64 layer: literal shapes (vec![..] literals are constant-folded by CBMC; see c04_convert.rs), every
//      combination of ring windings enumerated by separate harnesses -------------------------------------
#[cfg(kani)]
fn cf(x: f64, y: f64) -> Coord<f64> { Coord { x, y } }
/// 8x8 square at offset o, counter-clockwise (area 64) or clockwise
#[cfg(kani)]
fn shell(o: f64, cw: bool) -> LineString<f64> {
    if cw { LineString(vec![cf(o, o), cf(o, o + 8.), cf(o + 8., o + 8.), cf(o + 8., o), cf(o, o)]) }
    else { LineString(vec![cf(o, o), cf(o + 8., o), cf(o + 8., o + 8.), cf(o, o + 8.), cf(o, o)]) }
}
/// 2x2 hole (area 4), written from a middle vertex
#[cfg(kani)]
fn hole1(o: f64, cw: bool) -> LineString<f64> {
    if cw { LineString(vec![cf(o + 3., o + 1.), cf(o + 1., o + 1.), cf(o + 1., o + 3.), cf(o + 3., o + 3.), cf(o + 3., o + 1.)]) }
    else { LineString(vec![cf(o + 3., o + 1.), cf(o + 3., o + 3.), cf(o + 1., o + 3.), cf(o + 1., o + 1.), cf(o + 3., o + 1.)]) }
}
/// triangular hole (area 4.5)
#[cfg(kani)]
fn hole2(o: f64, cw: bool) -> LineString<f64> {
    if cw { LineString(vec![cf(o + 4., o + 4.), cf(o + 4., o + 7.), cf(o + 7., o + 4.), cf(o + 4., o + 4.)]) }
    else { LineString(vec![cf(o + 4., o + 4.), cf(o + 7., o + 4.), cf(o + 4., o + 7.), cf(o + 4., o + 4.)]) }
}

/// Polygon::signed_area = (|ext| - sum |hole|) * sign(ext) for either winding of each ring; unsigned = |signed|
#[cfg(kani)]
fn body_polygon_area(o: f64, e_cw: bool, h1_cw: bool, h2_cw: bool) {
    let p = Polygon::new(shell(o, e_cw), vec![hole1(o, h1_cw), hole2(o, h2_cw)]);
    let want = (64.0 - 4.0 - 4.5) * if e_cw { -1.0 } else { 1.0 };
    assert!(p.signed_area() == want);
    assert!(p.unsigned_area() == 55.5);
}
#[cfg(kani)] #[kani::proof] #[kani::unwind(8)]
fn c05_k_polygon_area_ccw_cw_cw() { body_polygon_area(0.0, false, true, true); }
#[cfg(kani)] #[kani::proof] #[kani::unwind(8)]
fn c05_k_polygon_area_ccw_ccw_cw() { body_polygon_area(0.0, false, false, true); }
#[cfg(kani)] #[kani::proof] #[kani::unwind(8)]
fn c05_k_polygon_area_cw_ccw_ccw_far() { body_polygon_area(100_000_000.0, true, false, false); }
#[cfg(kani)] #[kani::proof] #[kani::unwind(8)]
fn c05_k_polygon_area_cw_cw_ccw_far() { body_polygon_area(-100_000_000.0, true, true, false); }

/// Rect / Triangle areas equal those of their polygon form; collection areas are sums of their members
/// (unsigned: member by member, no cancellation between members of opposite winding)
#[cfg(kani)]
#[kani::proof]
#[kani::unwind(8)]
fn c05_k_rect_tri_collection_area() {
    let o = 100_000_000.0;
    let r = Rect::new(cf(1. + o, 2. + o), cf(5. + o, 4. + o));
    assert!(r.signed_area() == 8.0 && r.unsigned_area() == 8.0);
    assert!(r.to_polygon().signed_area() == 8.0);
    let t_cw = Triangle(cf(o, o), cf(o, 3. + o), cf(4. + o, o));
    let t_ccw = Triangle(cf(o, o), cf(4. + o, o), cf(o, 3. + o));
    assert!(t_cw.signed_area() == -6.0 && t_cw.unsigned_area() == 6.0 && t_ccw.signed_area() == 6.0);
    assert!(t_cw.to_polygon().signed_area() == -6.0);
    let p_cw = Polygon::new(shell(o, true), vec![]);
    let mp = MultiPolygon(vec![p_cw, r.to_polygon()]);
    assert!(mp.signed_area() == -64.0 + 8.0);
    assert!(mp.unsigned_area() == 64.0 + 8.0);
}

/// GeometryCollection (NOT registered in the quick tier: the recursive Geometry delegation is slow in CBMC)
#[cfg(kani)]
#[kani::proof]
#[kani::unwind(8)]
fn c05_k_geometry_collection_area() {
    let o = 0.0;
    let r = Rect::new(cf(1., 2.), cf(5., 4.));
    let t_ccw = Triangle(cf(o, o), cf(4. + o, o), cf(o, 3. + o));
    let p_cw = Polygon::new(shell(o, true), vec![]);
    let gc = GeometryCollection(vec![Geometry::Polygon(p_cw), Geometry::Triangle(t_ccw), Geometry::Rect(r)]);
    assert!(gc.signed_area() == -64.0 + 6.0 + 8.0);
    assert!(gc.unsigned_area() == 64.0 + 6.0 + 8.0);
}

/// orient: same rings, exterior counter-clockwise and holes clockwise (or the reverse), whatever they were
#[cfg(kani)]
fn body_orient(reversed: bool, e_cw: bool, h_cw: bool) {
    let p = Polygon::new(shell(0.0, e_cw), vec![hole1(0.0, h_cw)]);
    let o = p.orient(if reversed { Direction::Reversed } else { Direction::Default });
    assert!(o.interiors().len() == 1);
    assert!(o.exterior().is_ccw() == !reversed && o.exterior().is_cw() == reversed);
    assert!(o.interiors()[0].is_cw() == !reversed && o.interiors()[0].is_ccw() == reversed);
    // same rings: each is the input ring or its exact reversal
    let n = p.exterior().0.len();
    assert!(o.exterior().0.len() == n);
    let mut i = 0;
    while i < n {
        let a = o.exterior().0[i];
        assert!(if e_cw == reversed { a == p.exterior().0[i] } else { a == p.exterior().0[n - 1 - i] });
        i += 1;
    }
    let m = p.interiors()[0].0.len();
    let mut i = 0;
    while i < m {
        let a = o.interiors()[0].0[i];
        assert!(if h_cw != reversed { a == p.interiors()[0].0[i] } else { a == p.interiors()[0].0[m - 1 - i] });
        i += 1;
    }
}
#[cfg(kani)] #[kani::proof] #[kani::unwind(8)] #[kani::stub(robust::orient2d, robust_orient2d_model)]
fn c05_k_orient_default_ccw_ccw() { body_orient(false, false, false); }   // shell already right, hole wrong
#[cfg(kani)] #[kani::proof] #[kani::unwind(8)] #[kani::stub(robust::orient2d, robust_orient2d_model)]
fn c05_k_orient_default_cw_cw() { body_orient(false, true, true); }
#[cfg(kani)] #[kani::proof] #[kani::unwind(8)] #[kani::stub(robust::orient2d, robust_orient2d_model)]
fn c05_k_orient_reversed_cw_cw() { body_orient(true, true, true); }       // shell already right for Reversed, hole wrong
#[cfg(kani)] #[kani::proof] #[kani::unwind(8)] #[kani::stub(robust::orient2d, robust_orient2d_model)]
fn c05_k_orient_reversed_ccw_cw() { body_orient(true, false, true); }
