// ======================================================================================
// C05 -- area and ring orientation.
//  * twice_signed_ring_area / winding_order at i16 on a lattice (products fit: exact), symbolic coordinates;
//  * the CoordFloat-only layer (Polygon / Triangle / Multi* / collection areas, orient) at f64 on shapes
//    from a concrete menu at a SYMBOLIC integer offset, start vertex and winding -- the code shifts every ring
//    by its first coordinate, so the products are between constants and stay cheap for SAT, while the
//    sign / abs / hole / sum logic sees every combination.
// ======================================================================================
use crate::algorithm::area::twice_signed_ring_area;
use crate::winding_order::{Winding, WindingOrder};
use crate::orient::{Direction, Orient};

#[cfg(kani)]
fn shoelace2(pts: &[spec::P]) -> spec::S {
    let mut s: spec::S = 0;
    let mut i = 0;
    while i + 1 < pts.len() {
        s += pts[i].x * pts[i + 1].y - pts[i + 1].x * pts[i].y;
        i += 1;
    }
    s
}

// ---- ring area = shoelace sum (exact scalar), 0 for open / short rings -------------------------
#[cfg(kani)]
fn body_ring_area(n: usize, close: bool) {
    let mut ring = lat_ring_i16(n, 5);
    if close && n > 0 { let f = ring.0[0]; ring.0.push(f); }
    let (pts, len) = to_pts(&ring);
    let closed = len > 0 && pts[0] == pts[len - 1];
    let want = if len >= 3 && closed { shoelace2(&pts[..len]) } else { 0 };
    assert!(twice_signed_ring_area(&ring) == want);
}
k_harness!(c05_k_ring_area_closed_3, body_ring_area(3, true));
k_harness!(c05_k_ring_area_closed_4, body_ring_area(4, true));
k_harness!(c05_k_ring_area_open_3, body_ring_area(3, false));
k_harness!(c05_k_ring_area_open_2, body_ring_area(2, false));

// ---- winding_order = sign of the exact signed area (triangles, incl. a repeated vertex anywhere) --
#[cfg(kani)]
fn body_winding_tri(rot: usize, dup: usize) {
    let t = [lat_coord_i16(5), lat_coord_i16(5), lat_coord_i16(5)];
    let mut v = Vec::with_capacity(8);
    let mut i = 0;
    while i < 3 {
        let c = t[(i + rot) % 3];
        v.push(c);
        if dup == i { v.push(c); }           // a repeated vertex
        i += 1;
    }
    let f = v[0];
    v.push(f);
    if dup == 3 { v.push(f); }               // the closing vertex repeated
    let ring = LineString(v);
    let area2 = spec::cross(sp(t[0]), sp(t[1]), sp(t[2]));
    let want = if area2 > 0 { Some(WindingOrder::CounterClockwise) } else if area2 < 0 { Some(WindingOrder::Clockwise) } else { None };
    assert!(ring.winding_order() == want);
    assert!(ring.is_ccw() == (area2 > 0) && ring.is_cw() == (area2 < 0));
    kani::cover!(area2 > 0, "ccw");
}
k_harness!(c05_k_winding_tri_0_none, body_winding_tri(0, 9));
k_harness!(c05_k_winding_tri_1_dup0, body_winding_tri(1, 0));
k_harness!(c05_k_winding_tri_2_dup2, body_winding_tri(2, 2));
k_harness!(c05_k_winding_tri_0_dupclose, body_winding_tri(0, 3));
k_harness!(c05_k_winding_tri_1_dupclose, body_winding_tri(1, 3));
k_harness!(c05_k_winding_tri_2_dupclose, body_winding_tri(2, 3));

#[cfg(kani)]
fn body_make_winding(rot: usize) {
    let t = [lat_coord_i16(5), lat_coord_i16(5), lat_coord_i16(5)];
    let mut v = Vec::with_capacity(8);
    let mut i = 0;
    while i < 3 { v.push(t[(i + rot) % 3]); i += 1; }
    v.push(t[rot % 3]);
    let ring = LineString(v);
    let area2 = spec::cross(sp(t[0]), sp(t[1]), sp(t[2]));
    kani::assume(area2 != 0);
    let mut cw = ring.clone(); cw.make_cw_winding();
    let mut ccw = ring.clone(); ccw.make_ccw_winding();
    assert!(cw.is_cw() && ccw.is_ccw());
    // same coordinates: either unchanged or exactly reversed
    let same = |a: &LineString<i16>, b: &LineString<i16>| a.0.len() == 4 && b.0.len() == 4 && a.0[0] == b.0[0] && a.0[1] == b.0[1] && a.0[2] == b.0[2] && a.0[3] == b.0[3];
    let rev = |a: &LineString<i16>, b: &LineString<i16>| a.0.len() == 4 && b.0.len() == 4 && a.0[0] == b.0[3] && a.0[1] == b.0[2] && a.0[2] == b.0[1] && a.0[3] == b.0[0];
    assert!(if area2 > 0 { same(&ccw, &ring) && rev(&cw, &ring) } else { same(&cw, &ring) && rev(&ccw, &ring) });
    assert!(ring.clone_to_winding_order(WindingOrder::Clockwise).is_cw());
}
k_harness!(c05_k_make_winding_0, body_make_winding(0));

// ---- f64 layer: menu shapes at symbolic offset / start / winding -------------------------------
/// ring `which` of the menu, written from start vertex `rot`, reversed if `rev`, translated by (dx, dy).
/// Returns the ring and twice its signed area as written (exact).
#[cfg(kani)]
fn menu_ring(which: u8, rot: usize, rev: bool, dx: f64, dy: f64) -> (LineString<f64>, f64) {
    // (counter-clockwise vertex lists)
    let (pts, a2): (&[(f64, f64)], f64) = match which {
        0 => (&[(0., 0.), (8., 0.), (8., 8.), (0., 8.)], 128.),               // square 8x8
        1 => (&[(1., 1.), (3., 1.), (3., 3.), (1., 3.)], 8.),                 // hole 2x2
        2 => (&[(4., 4.), (7., 4.), (4., 7.)], 9.),                           // triangular hole
        _ => (&[(0., 0.), (6., 0.), (6., 2.), (2., 2.), (2., 6.), (0., 6.)], 40.), // L shape
    };
    let n = pts.len();
    let mut v = Vec::with_capacity(8);
    let mut i = 0;
    while i <= n {
        let k = if rev { (rot + n - (i % n)) % n } else { (rot + i) % n };
        v.push(Coord { x: pts[k].0 + dx, y: pts[k].1 + dy });
        i += 1;
    }
    (LineString(v), if rev { -a2 } else { a2 })
}

/// offset menu (symbolic float offsets make the SAT instance intractable: > 600 s): the origin, or the
/// property's example 1e8 (integer offsets keep every coordinate exact)
#[cfg(kani)]
fn any_offset() -> (f64, f64) {
    let far: bool = kani::any();
    if far { (100_000_000.0, -100_000_000.0) } else { (0.0, 0.0) }
}

/// Polygon::signed_area = (|ext| - sum |hole|) * sign(ext) for either winding of each ring; unsigned = |signed|
#[cfg(kani)]
fn body_polygon_area(ext: u8, holes: usize, rot: usize) {
    let (dx, dy) = any_offset();
    let (rev_e, rev_h1, rev_h2): (bool, bool, bool) = (kani::any(), kani::any(), kani::any());
    let (e, ea2) = menu_ring(ext, rot, rev_e, dx, dy);
    let mut hs = Vec::with_capacity(2);
    let mut hole_a2 = 0.0;
    if holes >= 1 { let (h, a2) = menu_ring(1, rot % 4, rev_h1, dx, dy); hs.push(h); hole_a2 += a2.abs(); }
    if holes >= 2 { let (h, a2) = menu_ring(2, rot % 3, rev_h2, dx, dy); hs.push(h); hole_a2 += a2.abs(); }
    let p = Polygon::new(e, hs);
    let want = (ea2.abs() - hole_a2) / 2.0 * if ea2 < 0.0 { -1.0 } else { 1.0 };
    assert!(p.signed_area() == want);
    assert!(p.unsigned_area() == want.abs());
    assert!((p.signed_area() > 0.0) == !rev_e);
    kani::cover!(rev_e && !rev_h1, "cw shell, ccw hole");
}
k_harness!(c05_k_polygon_area_sq_0, body_polygon_area(0, 0, 1));
k_harness!(c05_k_polygon_area_sq_2, body_polygon_area(0, 2, 2));
k_harness!(c05_k_polygon_area_l_0, body_polygon_area(3, 0, 4));

/// Rect / Triangle areas equal those of their polygon form; collection areas are sums of their members
#[cfg(kani)]
#[kani::proof]
#[kani::unwind(10)]
fn c05_k_rect_tri_collection_area() {
    let (dx, dy) = any_offset();
    let r = Rect::new(Coord { x: 1. + dx, y: 2. + dy }, Coord { x: 5. + dx, y: 4. + dy });
    assert!(r.signed_area() == 8.0 && r.unsigned_area() == 8.0);
    assert!(r.to_polygon().signed_area() == 8.0);
    let cw: bool = kani::any();
    let t = if cw { Triangle(Coord { x: dx, y: dy }, Coord { x: dx, y: 3. + dy }, Coord { x: 4. + dx, y: dy }) }
            else { Triangle(Coord { x: dx, y: dy }, Coord { x: 4. + dx, y: dy }, Coord { x: dx, y: 3. + dy }) };
    let ta = if cw { -6.0 } else { 6.0 };
    assert!(t.signed_area() == ta && t.unsigned_area() == 6.0);
    assert!(t.to_polygon().signed_area() == ta);
    // collections: signed areas add up, unsigned areas add up member by member (no cancellation)
    let rev: bool = kani::any();
    let (sq, a2) = menu_ring(0, 0, rev, dx, dy);
    let p = Polygon::new(sq, Vec::new());
    let mut mv = Vec::with_capacity(2); mv.push(p.clone()); mv.push(r.to_polygon());
    let mp = MultiPolygon(mv);
    assert!(mp.signed_area() == a2 / 2.0 + 8.0);
    assert!(mp.unsigned_area() == 64.0 + 8.0);
    let mut gv = Vec::with_capacity(3); gv.push(Geometry::Polygon(p)); gv.push(Geometry::Triangle(t)); gv.push(Geometry::Rect(r));
    let gc = GeometryCollection(gv);
    assert!(gc.signed_area() == a2 / 2.0 + ta + 8.0);
    assert!(gc.unsigned_area() == 64.0 + 6.0 + 8.0);
    kani::cover!(rev && !cw, "mixed signs");
}

/// orient: same rings, exterior counter-clockwise and holes clockwise (or the reverse), whatever they were
#[cfg(kani)]
fn body_orient(reversed: bool) {
    let (rev_e, rev_h): (bool, bool) = (kani::any(), kani::any());
    let (e, _) = menu_ring(0, 1, rev_e, 0.0, 0.0);
    let (h, _) = menu_ring(1, 2, rev_h, 0.0, 0.0);
    let mut hs = Vec::with_capacity(1); hs.push(h);
    let p = Polygon::new(e, hs);
    let o = p.orient(if reversed { Direction::Reversed } else { Direction::Default });
    assert!(o.interiors().len() == 1);
    assert!(o.exterior().is_ccw() == !reversed && o.exterior().is_cw() == reversed);
    assert!(o.interiors()[0].is_cw() == !reversed && o.interiors()[0].is_ccw() == reversed);
    // same rings: each is the input ring or its exact reversal
    let n = p.exterior().0.len();
    assert!(o.exterior().0.len() == n);
    let mut i = 0;
    while i < n {
        let a = o.exterior().0[i];
        assert!(if rev_e == reversed { a == p.exterior().0[i] } else { a == p.exterior().0[n - 1 - i] });
        i += 1;
    }
    assert!(o.unsigned_area() == p.unsigned_area());
    kani::cover!(!rev_e && !rev_h, "shell already right, hole wrong");
}
k_harness!(c05_k_orient_default, body_orient(false));
k_harness!(c05_k_orient_reversed, body_orient(true));
