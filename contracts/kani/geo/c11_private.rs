// Harnesses for the private helpers of geo::algorithm::line_intersection (property C11).
use super::*;
use geo_types::{Coord, Line};

/// S3: abstract distance.  `nearest_endpoint` must return the candidate that minimises WHATEVER the
/// point-to-segment distance function returns; the real function (hypot, division) is replaced by an
/// arbitrary-but-deterministic cheap model so that the selection logic is decided exactly.
#[cfg(kani)]
fn distance_model<C: Into<Coord<T>>, T: geo_types::CoordFloat>(p: C, l: Line<T>) -> T {
    let p: Coord<T> = p.into();
    // a deterministic function of its arguments without symmetries between them, computed in integers
    // (inputs are small integer-valued floats) because symbolic float arithmetic is costly for SAT
    let i = |v: T| v.to_i32().unwrap();
    let m = (i(p.x) * 2 + i(p.y) + i(l.start.x) * 4 - i(l.end.y)).abs() + (i(p.y) - i(l.end.x)).abs();
    T::from(m).unwrap()
}

#[cfg(kani)]
#[kani::proof]
#[kani::stub(geo_types::private_utils::point_line_euclidean_distance, distance_model)]
fn c11_k_nearest_endpoint_is_argmin() {
    let v: [i8; 8] = kani::any();
    let f = |k: usize| v[k] as f64;
    let p = Line::new(Coord { x: f(0), y: f(1) }, Coord { x: f(2), y: f(3) });
    let q = Line::new(Coord { x: f(4), y: f(5) }, Coord { x: f(6), y: f(7) });
    let r = nearest_endpoint(p, q);
    let d = [distance_model(p.start, q), distance_model(p.end, q), distance_model(q.start, p), distance_model(q.end, p)];
    let c = [p.start, p.end, q.start, q.end];
    // the first candidate (in the documented order) attaining the minimum
    let mut best = 0;
    let mut k = 1;
    while k < 4 { if d[k] < d[best] { best = k; } k += 1; }
    assert!(r == c[best]);
    kani::cover!(best == 1, "p.end is nearest");
    kani::cover!(best == 3, "q.end is nearest");
}

#[cfg(kani)]
include!(concat!(env!("GEO_VERIF_DIR"), "/.work/playback/pb_c11_private.rs"));
