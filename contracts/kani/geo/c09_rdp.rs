// Harnesses for geo::algorithm::simplify (property C09, Douglas-Peucker).
// NOT REGISTERED: CBMC does not finish symbolic execution of these harnesses (timeouts at 900 s even for a 3-vertex
// line string with a concrete tolerance): the sqrt in the distance kernel makes every distance symbolic, after which
// the recursion runs over slices of symbolic length.  Kept as documentation of the contract that was attempted.
// BOUNDED: polylines from a concrete menu (<= 6 vertices: zig-zag, overshoot / back-tracking, collinear,
// repeated vertices, closed ring) with a SYMBOLIC tolerance (any finite f64 in [-1, 64]): the distance
// computations are between constants, every comparison against the tolerance is explored.
// The distance used in the contract is the real `Euclidean.distance(Coord, &Line)` (f64::hypot modelled as
// sqrt(a*a+b*b)).
use super::*;
use crate::{Simplify, SimplifyIdx};
use geo_types::{Coord, CoordNum, Line, LineString, Polygon};

include!(concat!(env!("GEO_VERIF_DIR"), "/contracts/kani/common.rs"));

#[cfg(kani)]
fn menu_line(which: u8) -> LineString<f64> {
    let pts: &[(f64, f64)] = match which {
        0 => &[(0., 0.), (5., 4.), (11., 5.5), (17.3, 3.2), (27.8, 0.1)],          // the doc example
        1 => &[(0., 0.), (20., 0.5), (10., 0.)],                                    // overshoot: vertex beyond the chord end
        2 => &[(0., 0.), (4., 0.), (2., 0.), (6., 0.), (6., 3.)],                   // collinear back-tracking
        3 => &[(0., 0.), (0., 0.), (3., 1.), (3., 1.), (6., 0.), (6., 0.)],         // repeated vertices
        4 => &[(0., 0.), (4., 0.), (4., 4.), (0., 4.), (0., 0.)],                   // closed ring
        _ => &[(0., 0.), (1., 3.), (2., 0.), (3., 3.), (4., 0.), (5., 3.)],         // zig-zag
    };
    let mut v = Vec::with_capacity(8);
    let mut i = 0;
    while i < pts.len() { v.push(Coord { x: pts[i].0, y: pts[i].1 }); i += 1; }
    LineString(v)
}

#[cfg(kani)]
fn any_eps() -> f64 { let e: f64 = kani::any(); kani::assume(e.is_finite() && -1.0 <= e && e <= 64.0); e }

/// the contract of simplify / simplify_idx on one line string
#[cfg(kani)]
fn body_rdp(which: u8) {
    let ls = menu_line(which);
    let n = ls.0.len();
    let eps = any_eps();
    let idx = ls.simplify_idx(eps);
    let out = ls.simplify(eps);
    // the index variant lists exactly the positions of the vertices the coordinate variant keeps
    assert!(idx.len() == out.0.len());
    let mut k = 0;
    while k < idx.len() {
        assert!(idx[k] < n && out.0[k] == ls.0[idx[k]]);
        if k > 0 { assert!(idx[k - 1] < idx[k]); }        // a subsequence, in order
        k += 1;
    }
    // first and last are kept
    assert!(idx.len() >= 2 && idx[0] == 0 && idx[idx.len() - 1] == n - 1);
    // eps <= 0 is the identity
    if eps <= 0.0 { assert!(idx.len() == n); }
    // every dropped vertex lies within eps of the retained segment that replaces it
    let mut k = 0;
    while k + 1 < idx.len() {
        let seg = Line::new(ls.0[idx[k]], ls.0[idx[k + 1]]);
        let mut j = idx[k] + 1;
        while j < idx[k + 1] {
            assert!(Euclidean.distance(ls.0[j], &seg) <= eps);
            j += 1;
        }
        k += 1;
    }
    kani::cover!(idx.len() < n, "something was dropped");
}
#[cfg(kani)] #[kani::proof] #[kani::unwind(10)] #[kani::stub(f64::hypot, hypot_model)]
fn c09_k_rdp_doc_example() { body_rdp(0); }
#[cfg(kani)] #[kani::proof] #[kani::unwind(10)] #[kani::stub(f64::hypot, hypot_model)]
fn c09_k_rdp_overshoot() { body_rdp(1); }
#[cfg(kani)] #[kani::proof] #[kani::unwind(10)] #[kani::stub(f64::hypot, hypot_model)]
fn c09_k_rdp_backtrack() { body_rdp(2); }
#[cfg(kani)] #[kani::proof] #[kani::unwind(10)] #[kani::stub(f64::hypot, hypot_model)]
fn c09_k_rdp_repeated() { body_rdp(3); }
#[cfg(kani)] #[kani::proof] #[kani::unwind(10)] #[kani::stub(f64::hypot, hypot_model)]
fn c09_k_rdp_zigzag() { body_rdp(5); }

/// polygon rings stay closed and never shrink below four coordinates (shell AND holes), for any tolerance
#[cfg(kani)]
#[kani::proof]
#[kani::unwind(10)]
#[kani::stub(f64::hypot, hypot_model)]
fn c09_k_rdp_polygon_ring_minimum() {
    let eps = any_eps();
    // shell 8x8 square, hole = thin sliver triangle (apex within 0.2 of the opposite edge)
    let mut hv = Vec::with_capacity(8);
    hv.push(Coord { x: 2.0, y: 2.0 }); hv.push(Coord { x: 6.0, y: 2.0 }); hv.push(Coord { x: 4.0, y: 2.2 }); hv.push(Coord { x: 2.0, y: 2.0 });
    let mut sv = Vec::with_capacity(8);
    sv.push(Coord { x: 0.0, y: 0.0 }); sv.push(Coord { x: 8.0, y: 0.0 }); sv.push(Coord { x: 8.0, y: 8.0 }); sv.push(Coord { x: 0.0, y: 8.0 }); sv.push(Coord { x: 0.0, y: 0.0 });
    let mut holes = Vec::with_capacity(1); holes.push(LineString(hv));
    let p = Polygon::new(LineString(sv), holes);
    let q = p.simplify(eps);
    assert!(q.interiors().len() == 1);
    assert!(q.exterior().0.len() >= 4 && q.exterior().0[0] == q.exterior().0[q.exterior().0.len() - 1]);
    assert!(q.interiors()[0].0.len() >= 4 && q.interiors()[0].0[0] == q.interiors()[0].0[q.interiors()[0].0.len() - 1]);
    kani::cover!(eps > 1.0, "tolerance larger than the sliver");
}

#[cfg(kani)]
include!(concat!(env!("GEO_VERIF_DIR"), "/.work/playback/pb_c09_rdp.rs"));

