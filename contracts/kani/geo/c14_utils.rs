// ======================================================================================
// C14 -- the per-ring checks of the polygon validator (private helpers of validation::utils).
// The `Validation` trait itself cannot be compiled by Kani 0.68 (internal compiler error in the codegen of
// `Validation::check_validation`: Box<dyn FnMut> field assertion), and the ring-vs-ring checks go through
// relate (C01's assumption), so only these helpers are under contract.
// BOUNDED: literal rings + triangles on the lattice; robust::orient2d stubbed by its assumed contract.
// ======================================================================================
use super::*;
use geo_types::{Coord, CoordNum, LineString};

include!(concat!(env!("GEO_VERIF_DIR"), "/contracts/kani/common.rs"));
include!(concat!(env!("GEO_VERIF_DIR"), "/contracts/kani/spec.rs"));

#[cfg(kani)]
fn robust_orient2d_model<T: Into<f64>>(pa: robust::Coord<T>, pb: robust::Coord<T>, pc: robust::Coord<T>) -> f64 {
    let c = |p: robust::Coord<T>| { let (x, y): (f64, f64) = (p.x.into(), p.y.into()); spec::P { x: x as spec::S, y: y as spec::S } };
    spec::cross(c(pa), c(pb), c(pc)) as f64
}
#[cfg(kani)]
fn cv(x: f64, y: f64) -> Coord<f64> { Coord { x, y } }

/// complete over all f64: a coordinate is reported exactly when a component is NaN or infinite
#[cfg(kani)]
#[kani::proof]
fn c14_k_non_finite_all_f64() {
    let (x, y): (f64, f64) = (kani::any(), kani::any());
    assert!(check_coord_is_not_finite(&Coord { x, y }) == !(x.is_finite() && y.is_finite()));
    let (xf, yf): (f32, f32) = (kani::any(), kani::any());
    assert!(check_coord_is_not_finite(&Coord { x: xf, y: yf }) == !(xf.is_finite() && yf.is_finite()));
}

/// a ring needs four coordinates of which three are distinct (repeats removed); a line string two
#[cfg(kani)]
#[kani::proof]
#[kani::unwind(9)]
fn c14_k_too_few_points() {
    assert!(check_too_few_points(&LineString(vec![cv(0., 0.), cv(1., 1.), cv(1., 1.), cv(0., 0.)]), true));
    assert!(check_too_few_points(&LineString(vec![cv(0., 0.), cv(1., 1.), cv(0., 0.)]), true));
    assert!(!check_too_few_points(&LineString(vec![cv(0., 0.), cv(1., 1.), cv(2., 0.), cv(0., 0.)]), true));
    assert!(!check_too_few_points(&LineString(vec![cv(0., 0.), cv(0., 0.), cv(1., 1.), cv(2., 0.), cv(0., 0.)]), true));
    assert!(check_too_few_points(&LineString(vec![cv(0., 0.), cv(0., 0.)]), false));
    assert!(!check_too_few_points(&LineString(vec![cv(0., 0.), cv(1., 0.)]), false));
}

/// self-intersection on literal rings: simple rings (incl. a repeated start vertex, a repeated middle vertex)
/// are accepted, a bow-tie and a spike are rejected
#[cfg(kani)] #[kani::proof] #[kani::unwind(9)] #[kani::stub(robust::orient2d, robust_orient2d_model)]
fn c14_k_self_intersection_square() {
    assert!(!linestring_has_self_intersection(&LineString(vec![cv(0., 0.), cv(4., 0.), cv(4., 4.), cv(0., 4.), cv(0., 0.)])));
}
#[cfg(kani)] #[kani::proof] #[kani::unwind(9)] #[kani::stub(robust::orient2d, robust_orient2d_model)]
fn c14_k_self_intersection_repeated_start_vertex() {
    assert!(!linestring_has_self_intersection(&LineString(vec![cv(0., 0.), cv(0., 0.), cv(4., 0.), cv(4., 4.), cv(0., 4.), cv(0., 0.)])));
}
#[cfg(kani)] #[kani::proof] #[kani::unwind(9)] #[kani::stub(robust::orient2d, robust_orient2d_model)]
fn c14_k_self_intersection_repeated_end_vertex() {
    assert!(!linestring_has_self_intersection(&LineString(vec![cv(0., 0.), cv(4., 0.), cv(4., 4.), cv(0., 4.), cv(0., 0.), cv(0., 0.)])));
}
#[cfg(kani)] #[kani::proof] #[kani::unwind(9)] #[kani::stub(robust::orient2d, robust_orient2d_model)]
fn c14_k_self_intersection_bowtie() {
    assert!(linestring_has_self_intersection(&LineString(vec![cv(0., 0.), cv(4., 4.), cv(4., 0.), cv(0., 4.), cv(0., 0.)])));
}
#[cfg(kani)] #[kani::proof] #[kani::unwind(9)] #[kani::stub(robust::orient2d, robust_orient2d_model)]
fn c14_k_self_intersection_spike() {
    // square with a zero-width spike: (4,2) -> (6,2) -> (4,2)
    assert!(linestring_has_self_intersection(&LineString(vec![cv(0., 0.), cv(4., 0.), cv(4., 2.), cv(6., 2.), cv(4., 2.), cv(4., 4.), cv(0., 4.), cv(0., 0.)])));
}
/// known finding: a closed ring of three collinear points (zero area, overlapping edges) is not reported
#[cfg(kani)] #[kani::proof] #[kani::unwind(9)] #[kani::stub(robust::orient2d, robust_orient2d_model)]
fn c14_k_finding_collinear_ring_not_reported() {
    let ring = LineString(vec![cv(0., 0.), cv(1., 0.), cv(2., 0.), cv(0., 0.)]);
    assert!(linestring_has_self_intersection(&ring) || check_too_few_points(&ring, true));
}

#[cfg(kani)]
include!(concat!(env!("GEO_VERIF_DIR"), "/.work/playback/pb_c14_utils.rs"));
