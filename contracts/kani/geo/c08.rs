// Harnesses for geo::algorithm::convex_hull (property C08), scalar i16 on a small lattice (products fit).
// Decided: the helpers and the hull of <= 3 points completely on the lattice; quick_hull / graham_hull on
// exactly 4 / 5 points (bounded).  The global postcondition for arbitrary point sets is NOT decided.
use super::*;
use crate::kernels::{Kernel, Orientation};
use crate::utils::{least_and_greatest_index, least_index, lex_cmp, partition_slice};
use geo_types::{Coord, CoordNum, LineString};
use std::cmp::Ordering;

include!(concat!(env!("GEO_VERIF_DIR"), "/contracts/kani/common.rs"));
include!(concat!(env!("GEO_VERIF_DIR"), "/contracts/kani/spec.rs"));

#[cfg(kani)]
fn sp(c: Coord<i16>) -> spec::P { spec::P { x: c.x, y: c.y } }
#[cfg(kani)]
fn lex_lt(a: Coord<i16>, b: Coord<i16>) -> bool { a.x < b.x || (a.x == b.x && a.y < b.y) }

/// the contract of a hull ring `h` for the input points `pts` (exact orientation):
/// closed, counter-clockwise, strictly convex (no repeated or collinear vertex), vertices are inputs, contains all inputs
#[cfg(kani)]
fn is_strict_hull_of(h: &LineString<i16>, pts: &[Coord<i16>]) -> bool {
    let n = h.0.len();
    if n < 4 || h.0[0] != h.0[n - 1] { return false; }
    let m = n - 1;
    let mut ok = true;
    let mut i = 0;
    while i < m {
        let (a, b, c) = (h.0[i], h.0[(i + 1) % m], h.0[(i + 2) % m]);
        // strictly counter-clockwise turn at every vertex
        ok = ok && spec::orient(sp(a), sp(b), sp(c)) == 1;
        // every vertex is an input coordinate
        let mut found = false;
        let mut k = 0;
        while k < pts.len() { if pts[k] == a { found = true; } k += 1; }
        ok = ok && found;
        // every input is on the left of / on every edge
        let mut k = 0;
        while k < pts.len() { ok = ok && spec::orient(sp(a), sp(b), sp(pts[k])) >= 0; k += 1; }
        i += 1;
    }
    ok
}

// ---- helpers (complete on the lattice / all indices) -----------------------------------------
#[cfg(kani)]
#[kani::proof]
#[kani::unwind(6)]
fn c08_k_lex_cmp_and_least_index() {
    let p = [lat_coord_i16(3), lat_coord_i16(3), lat_coord_i16(3), lat_coord_i16(3)];
    let o = lex_cmp(&p[0], &p[1]);
    assert!(o == if lex_lt(p[0], p[1]) { Ordering::Less } else if p[0] == p[1] { Ordering::Equal } else { Ordering::Greater });
    let i = least_index(&p);
    let (lo, hi) = least_and_greatest_index(&p);
    assert!(i < 4 && lo < 4 && hi < 4);
    let mut k = 0;
    while k < 4 {
        assert!(!lex_lt(p[k], p[i]) && !lex_lt(p[k], p[lo]) && !lex_lt(p[hi], p[k]));
        k += 1;
    }
    // the FIRST least / greatest element is reported
    let mut k = 0;
    while k < 4 { if k < i { assert!(p[k] != p[i]); } if k < lo { assert!(p[k] != p[lo]); } if k < hi { assert!(p[k] != p[hi]); } k += 1; }
}

#[cfg(kani)]
#[kani::proof]
#[kani::unwind(6)]
fn c08_k_swap_with_first_and_remove() {
    let mut a: [i16; 4] = kani::any();
    let orig = a;
    let idx: usize = kani::any();
    kani::assume(idx < 4);
    let mut s: &mut [i16] = &mut a;
    let h = swap_with_first_and_remove(&mut s, idx);
    assert!(*h == orig[idx]);
    assert!(s.len() == 3);
    // the rest is the original with element idx replaced by the old head (when idx > 0)
    let mut k = 0;
    while k < 3 {
        let want = if k + 1 == idx { orig[0] } else { orig[k + 1] };
        assert!(s[k] == want);
        k += 1;
    }
}

#[cfg(kani)]
#[kani::proof]
#[kani::unwind(8)]
fn c08_k_partition_slice() {
    let mut a: [i8; 5] = kani::any();
    let orig = a;
    let t: i8 = kani::any();
    let n: usize = kani::any();
    kani::assume(n <= 5);
    let (l, r) = partition_slice(&mut a[..n], |x| *x > t);
    let (ll, rl) = (l.len(), r.len());
    assert!(ll + rl == n);
    let mut k = 0;
    while k < ll { assert!(l[k] > t); k += 1; }
    let mut k = 0;
    while k < rl { assert!(!(r[k] > t)); k += 1; }
    // permutation: every value occurs as often as before
    let v: i8 = kani::any();
    let (mut c0, mut c1) = (0, 0);
    let mut k = 0;
    while k < n { if orig[k] == v { c0 += 1; } if a[k] == v { c1 += 1; } k += 1; }
    assert!(c0 == c1);
}

// ---- hull of <= 3 points: complete on the lattice --------------------------------------------
#[cfg(kani)]
#[kani::proof]
#[kani::unwind(8)]
fn c08_k_trivial_hull_3() {
    let mut p = [lat_coord_i16(3), lat_coord_i16(3), lat_coord_i16(3)];
    let orig = p;
    let h = trivial_hull(&mut p, false);
    let o = spec::orient(sp(orig[0]), sp(orig[1]), sp(orig[2]));
    if o != 0 {
        assert!(is_strict_hull_of(&h, &orig));
        assert!(h.0.len() == 4);
    } else {
        // collinear input: a closed ring through the two extreme points (or the single point)
        assert!(h.0.len() >= 2 && h.0[0] == h.0[h.0.len() - 1]);
    }
}

// ---- quick_hull / graham_hull on 4 and 5 points (bounded) ------------------------------------
#[cfg(kani)]
fn body_hull4(which: u8) {
    let mut p = [lat_coord_i16(2), lat_coord_i16(2), lat_coord_i16(2), lat_coord_i16(2)];
    let orig = p;
    // not all collinear (the statement requires three non-collinear coordinates)
    kani::assume(spec::orient(sp(p[0]), sp(p[1]), sp(p[2])) != 0 || spec::orient(sp(p[0]), sp(p[1]), sp(p[3])) != 0
        || spec::orient(sp(p[0]), sp(p[2]), sp(p[3])) != 0);
    let h = if which == 0 { qhull::quick_hull(&mut p) } else { graham::graham_hull(&mut p, false) };
    assert!(is_strict_hull_of(&h, &orig));
}
#[cfg(kani)]
#[kani::proof]
#[kani::unwind(8)]
fn c08_k_quick_hull_4() { body_hull4(0); }
#[cfg(kani)]
#[kani::proof]
#[kani::unwind(8)]
fn c08_k_graham_hull_4() { body_hull4(1); }

// ---- hull contract on a MENU of literal point sets, each written from three different start points (every
//      vector is a `vec![..]` literal: rotating at run time defeats CBMC's constant folding).  Bounded; symbolic
//      point sets do not finish (see above).
#[cfg(kani)]
fn check_hull(orig: Vec<Coord<i16>>, mut work: Vec<Coord<i16>>, graham: bool) {
    let h = if graham { graham::graham_hull(&mut work, false) } else { qhull::quick_hull(&mut work) };
    assert!(is_strict_hull_of(&h, &orig));
}
#[cfg(kani)]
fn c16(x: i16, y: i16) -> Coord<i16> { Coord { x, y } }

#[cfg(kani)] #[kani::proof] #[kani::unwind(12)]
fn c08_k_quick_hull_menu_0_rot0() { check_hull(vec![c16(4, 0), c16(2, 1), c16(3, 4), c16(0, 2)], vec![c16(4, 0), c16(2, 1), c16(3, 4), c16(0, 2)], false); }
#[cfg(kani)] #[kani::proof] #[kani::unwind(12)]
fn c08_k_graham_hull_menu_0_rot0() { check_hull(vec![c16(4, 0), c16(2, 1), c16(3, 4), c16(0, 2)], vec![c16(4, 0), c16(2, 1), c16(3, 4), c16(0, 2)], true); }
#[cfg(kani)] #[kani::proof] #[kani::unwind(12)]
fn c08_k_quick_hull_menu_0_rot1() { check_hull(vec![c16(2, 1), c16(3, 4), c16(0, 2), c16(4, 0)], vec![c16(2, 1), c16(3, 4), c16(0, 2), c16(4, 0)], false); }
#[cfg(kani)] #[kani::proof] #[kani::unwind(12)]
fn c08_k_graham_hull_menu_0_rot1() { check_hull(vec![c16(2, 1), c16(3, 4), c16(0, 2), c16(4, 0)], vec![c16(2, 1), c16(3, 4), c16(0, 2), c16(4, 0)], true); }
#[cfg(kani)] #[kani::proof] #[kani::unwind(12)]
fn c08_k_quick_hull_menu_0_rot2() { check_hull(vec![c16(3, 4), c16(0, 2), c16(4, 0), c16(2, 1)], vec![c16(3, 4), c16(0, 2), c16(4, 0), c16(2, 1)], false); }
#[cfg(kani)] #[kani::proof] #[kani::unwind(12)]
fn c08_k_graham_hull_menu_0_rot2() { check_hull(vec![c16(3, 4), c16(0, 2), c16(4, 0), c16(2, 1)], vec![c16(3, 4), c16(0, 2), c16(4, 0), c16(2, 1)], true); }
#[cfg(kani)] #[kani::proof] #[kani::unwind(12)]
fn c08_k_quick_hull_menu_1_rot0() { check_hull(vec![c16(0, 0), c16(2, 0), c16(4, 0), c16(4, 4), c16(0, 4)], vec![c16(0, 0), c16(2, 0), c16(4, 0), c16(4, 4), c16(0, 4)], false); }
#[cfg(kani)] #[kani::proof] #[kani::unwind(12)]
fn c08_k_graham_hull_menu_1_rot0() { check_hull(vec![c16(0, 0), c16(2, 0), c16(4, 0), c16(4, 4), c16(0, 4)], vec![c16(0, 0), c16(2, 0), c16(4, 0), c16(4, 4), c16(0, 4)], true); }
#[cfg(kani)] #[kani::proof] #[kani::unwind(12)]
fn c08_k_quick_hull_menu_1_rot1() { check_hull(vec![c16(2, 0), c16(4, 0), c16(4, 4), c16(0, 4), c16(0, 0)], vec![c16(2, 0), c16(4, 0), c16(4, 4), c16(0, 4), c16(0, 0)], false); }
#[cfg(kani)] #[kani::proof] #[kani::unwind(12)]
fn c08_k_graham_hull_menu_1_rot1() { check_hull(vec![c16(2, 0), c16(4, 0), c16(4, 4), c16(0, 4), c16(0, 0)], vec![c16(2, 0), c16(4, 0), c16(4, 4), c16(0, 4), c16(0, 0)], true); }
#[cfg(kani)] #[kani::proof] #[kani::unwind(12)]
fn c08_k_quick_hull_menu_1_rot2() { check_hull(vec![c16(4, 0), c16(4, 4), c16(0, 4), c16(0, 0), c16(2, 0)], vec![c16(4, 0), c16(4, 4), c16(0, 4), c16(0, 0), c16(2, 0)], false); }
#[cfg(kani)] #[kani::proof] #[kani::unwind(12)]
fn c08_k_graham_hull_menu_1_rot2() { check_hull(vec![c16(4, 0), c16(4, 4), c16(0, 4), c16(0, 0), c16(2, 0)], vec![c16(4, 0), c16(4, 4), c16(0, 4), c16(0, 0), c16(2, 0)], true); }
#[cfg(kani)] #[kani::proof] #[kani::unwind(12)]
fn c08_k_quick_hull_menu_2_rot0() { check_hull(vec![c16(0, 0), c16(4, 0), c16(4, 4), c16(0, 4), c16(2, 2), c16(0, 0), c16(4, 4)], vec![c16(0, 0), c16(4, 0), c16(4, 4), c16(0, 4), c16(2, 2), c16(0, 0), c16(4, 4)], false); }
#[cfg(kani)] #[kani::proof] #[kani::unwind(12)]
fn c08_k_graham_hull_menu_2_rot0() { check_hull(vec![c16(0, 0), c16(4, 0), c16(4, 4), c16(0, 4), c16(2, 2), c16(0, 0), c16(4, 4)], vec![c16(0, 0), c16(4, 0), c16(4, 4), c16(0, 4), c16(2, 2), c16(0, 0), c16(4, 4)], true); }
#[cfg(kani)] #[kani::proof] #[kani::unwind(12)]
fn c08_k_quick_hull_menu_2_rot1() { check_hull(vec![c16(4, 0), c16(4, 4), c16(0, 4), c16(2, 2), c16(0, 0), c16(4, 4), c16(0, 0)], vec![c16(4, 0), c16(4, 4), c16(0, 4), c16(2, 2), c16(0, 0), c16(4, 4), c16(0, 0)], false); }
#[cfg(kani)] #[kani::proof] #[kani::unwind(12)]
fn c08_k_graham_hull_menu_2_rot1() { check_hull(vec![c16(4, 0), c16(4, 4), c16(0, 4), c16(2, 2), c16(0, 0), c16(4, 4), c16(0, 0)], vec![c16(4, 0), c16(4, 4), c16(0, 4), c16(2, 2), c16(0, 0), c16(4, 4), c16(0, 0)], true); }
#[cfg(kani)] #[kani::proof] #[kani::unwind(12)]
fn c08_k_quick_hull_menu_2_rot2() { check_hull(vec![c16(4, 4), c16(0, 4), c16(2, 2), c16(0, 0), c16(4, 4), c16(0, 0), c16(4, 0)], vec![c16(4, 4), c16(0, 4), c16(2, 2), c16(0, 0), c16(4, 4), c16(0, 0), c16(4, 0)], false); }
#[cfg(kani)] #[kani::proof] #[kani::unwind(12)]
fn c08_k_graham_hull_menu_2_rot2() { check_hull(vec![c16(4, 4), c16(0, 4), c16(2, 2), c16(0, 0), c16(4, 4), c16(0, 0), c16(4, 0)], vec![c16(4, 4), c16(0, 4), c16(2, 2), c16(0, 0), c16(4, 4), c16(0, 0), c16(4, 0)], true); }
#[cfg(kani)] #[kani::proof] #[kani::unwind(12)]
fn c08_k_quick_hull_menu_3_rot0() { check_hull(vec![c16(0, 0), c16(1, 3), c16(2, 4), c16(3, 3), c16(4, 0), c16(2, -1), c16(1, 0), c16(3, 0)], vec![c16(0, 0), c16(1, 3), c16(2, 4), c16(3, 3), c16(4, 0), c16(2, -1), c16(1, 0), c16(3, 0)], false); }
#[cfg(kani)] #[kani::proof] #[kani::unwind(12)]
fn c08_k_graham_hull_menu_3_rot0() { check_hull(vec![c16(0, 0), c16(1, 3), c16(2, 4), c16(3, 3), c16(4, 0), c16(2, -1), c16(1, 0), c16(3, 0)], vec![c16(0, 0), c16(1, 3), c16(2, 4), c16(3, 3), c16(4, 0), c16(2, -1), c16(1, 0), c16(3, 0)], true); }
#[cfg(kani)] #[kani::proof] #[kani::unwind(12)]
fn c08_k_quick_hull_menu_3_rot1() { check_hull(vec![c16(1, 3), c16(2, 4), c16(3, 3), c16(4, 0), c16(2, -1), c16(1, 0), c16(3, 0), c16(0, 0)], vec![c16(1, 3), c16(2, 4), c16(3, 3), c16(4, 0), c16(2, -1), c16(1, 0), c16(3, 0), c16(0, 0)], false); }
#[cfg(kani)] #[kani::proof] #[kani::unwind(12)]
fn c08_k_graham_hull_menu_3_rot1() { check_hull(vec![c16(1, 3), c16(2, 4), c16(3, 3), c16(4, 0), c16(2, -1), c16(1, 0), c16(3, 0), c16(0, 0)], vec![c16(1, 3), c16(2, 4), c16(3, 3), c16(4, 0), c16(2, -1), c16(1, 0), c16(3, 0), c16(0, 0)], true); }
#[cfg(kani)] #[kani::proof] #[kani::unwind(12)]
fn c08_k_quick_hull_menu_3_rot2() { check_hull(vec![c16(2, 4), c16(3, 3), c16(4, 0), c16(2, -1), c16(1, 0), c16(3, 0), c16(0, 0), c16(1, 3)], vec![c16(2, 4), c16(3, 3), c16(4, 0), c16(2, -1), c16(1, 0), c16(3, 0), c16(0, 0), c16(1, 3)], false); }
#[cfg(kani)] #[kani::proof] #[kani::unwind(12)]
fn c08_k_graham_hull_menu_3_rot2() { check_hull(vec![c16(2, 4), c16(3, 3), c16(4, 0), c16(2, -1), c16(1, 0), c16(3, 0), c16(0, 0), c16(1, 3)], vec![c16(2, 4), c16(3, 3), c16(4, 0), c16(2, -1), c16(1, 0), c16(3, 0), c16(0, 0), c16(1, 3)], true); }
#[cfg(kani)] #[kani::proof] #[kani::unwind(12)]
fn c08_k_quick_hull_menu_4_rot0() { check_hull(vec![c16(3, 1), c16(0, 0), c16(1, 1), c16(2, 2), c16(3, 3), c16(0, 3)], vec![c16(3, 1), c16(0, 0), c16(1, 1), c16(2, 2), c16(3, 3), c16(0, 3)], false); }
#[cfg(kani)] #[kani::proof] #[kani::unwind(12)]
fn c08_k_graham_hull_menu_4_rot0() { check_hull(vec![c16(3, 1), c16(0, 0), c16(1, 1), c16(2, 2), c16(3, 3), c16(0, 3)], vec![c16(3, 1), c16(0, 0), c16(1, 1), c16(2, 2), c16(3, 3), c16(0, 3)], true); }
#[cfg(kani)] #[kani::proof] #[kani::unwind(12)]
fn c08_k_quick_hull_menu_4_rot1() { check_hull(vec![c16(0, 0), c16(1, 1), c16(2, 2), c16(3, 3), c16(0, 3), c16(3, 1)], vec![c16(0, 0), c16(1, 1), c16(2, 2), c16(3, 3), c16(0, 3), c16(3, 1)], false); }
#[cfg(kani)] #[kani::proof] #[kani::unwind(12)]
fn c08_k_graham_hull_menu_4_rot1() { check_hull(vec![c16(0, 0), c16(1, 1), c16(2, 2), c16(3, 3), c16(0, 3), c16(3, 1)], vec![c16(0, 0), c16(1, 1), c16(2, 2), c16(3, 3), c16(0, 3), c16(3, 1)], true); }
#[cfg(kani)] #[kani::proof] #[kani::unwind(12)]
fn c08_k_quick_hull_menu_4_rot2() { check_hull(vec![c16(1, 1), c16(2, 2), c16(3, 3), c16(0, 3), c16(3, 1), c16(0, 0)], vec![c16(1, 1), c16(2, 2), c16(3, 3), c16(0, 3), c16(3, 1), c16(0, 0)], false); }
#[cfg(kani)] #[kani::proof] #[kani::unwind(12)]
fn c08_k_graham_hull_menu_4_rot2() { check_hull(vec![c16(1, 1), c16(2, 2), c16(3, 3), c16(0, 3), c16(3, 1), c16(0, 0)], vec![c16(1, 1), c16(2, 2), c16(3, 3), c16(0, 3), c16(3, 1), c16(0, 0)], true); }
#[cfg(kani)] #[kani::proof] #[kani::unwind(12)]
fn c08_k_quick_hull_menu_5_rot0() { check_hull(vec![c16(5, 5), c16(1, 1), c16(5, 1), c16(1, 5), c16(3, 3), c16(3, 1)], vec![c16(5, 5), c16(1, 1), c16(5, 1), c16(1, 5), c16(3, 3), c16(3, 1)], false); }
#[cfg(kani)] #[kani::proof] #[kani::unwind(12)]
fn c08_k_graham_hull_menu_5_rot0() { check_hull(vec![c16(5, 5), c16(1, 1), c16(5, 1), c16(1, 5), c16(3, 3), c16(3, 1)], vec![c16(5, 5), c16(1, 1), c16(5, 1), c16(1, 5), c16(3, 3), c16(3, 1)], true); }
#[cfg(kani)] #[kani::proof] #[kani::unwind(12)]
fn c08_k_quick_hull_menu_5_rot1() { check_hull(vec![c16(1, 1), c16(5, 1), c16(1, 5), c16(3, 3), c16(3, 1), c16(5, 5)], vec![c16(1, 1), c16(5, 1), c16(1, 5), c16(3, 3), c16(3, 1), c16(5, 5)], false); }
#[cfg(kani)] #[kani::proof] #[kani::unwind(12)]
fn c08_k_graham_hull_menu_5_rot1() { check_hull(vec![c16(1, 1), c16(5, 1), c16(1, 5), c16(3, 3), c16(3, 1), c16(5, 5)], vec![c16(1, 1), c16(5, 1), c16(1, 5), c16(3, 3), c16(3, 1), c16(5, 5)], true); }
#[cfg(kani)] #[kani::proof] #[kani::unwind(12)]
fn c08_k_quick_hull_menu_5_rot2() { check_hull(vec![c16(5, 1), c16(1, 5), c16(3, 3), c16(3, 1), c16(5, 5), c16(1, 1)], vec![c16(5, 1), c16(1, 5), c16(3, 3), c16(3, 1), c16(5, 5), c16(1, 1)], false); }
#[cfg(kani)] #[kani::proof] #[kani::unwind(12)]
fn c08_k_graham_hull_menu_5_rot2() { check_hull(vec![c16(5, 1), c16(1, 5), c16(3, 3), c16(3, 1), c16(5, 5), c16(1, 1)], vec![c16(5, 1), c16(1, 5), c16(3, 3), c16(3, 1), c16(5, 5), c16(1, 1)], true); }

/// known finding: several points exactly equidistant from the chord -- quick_hull keeps the LAST one in slice order
/// even when it lies on the segment between two others, so a hull vertex lies on the segment between its neighbours
#[cfg(kani)] #[kani::proof] #[kani::unwind(12)]
fn c08_k_quick_hull_finding_equidistant_collinear() {
    let c = |x: i16, y: i16| Coord { x, y };
    let orig = vec![c(0, 0), c(4, 0), c(1, -1), c(3, -1), c(2, -1)];
    let mut work = vec![c(0, 0), c(4, 0), c(1, -1), c(3, -1), c(2, -1)];
    let h = qhull::quick_hull(&mut work);
    assert!(is_strict_hull_of(&h, &orig));
}
/// ... Graham scan handles the same input
#[cfg(kani)] #[kani::proof] #[kani::unwind(12)]
fn c08_k_graham_hull_equidistant_collinear() {
    let c = |x: i16, y: i16| Coord { x, y };
    let orig = vec![c(0, 0), c(4, 0), c(1, -1), c(3, -1), c(2, -1)];
    let mut work = vec![c(0, 0), c(4, 0), c(1, -1), c(3, -1), c(2, -1)];
    let h = graham::graham_hull(&mut work, false);
    assert!(is_strict_hull_of(&h, &orig));
}

// ---- large integer coordinates (the statement: "large coordinates where the farthest-point selection is subject
//      to rounding ... integer scalar types when the products fit"): i64 around 2^30, exact oracle in i128 --------
#[cfg(kani)]
fn is_strict_hull_of_i64(h: &LineString<i64>, pts: &[Coord<i64>]) -> bool {
    let o = |a: Coord<i64>, b: Coord<i64>, c: Coord<i64>| -> i128 {
        (b.x as i128 - a.x as i128) * (c.y as i128 - b.y as i128) - (b.y as i128 - a.y as i128) * (c.x as i128 - b.x as i128)
    };
    let n = h.0.len();
    if n < 4 || h.0[0] != h.0[n - 1] { return false; }
    let m = n - 1;
    let mut ok = true;
    let mut i = 0;
    while i < m {
        let (a, b, c) = (h.0[i], h.0[(i + 1) % m], h.0[(i + 2) % m]);
        ok = ok && o(a, b, c) > 0;
        let mut found = false;
        let mut k = 0;
        while k < pts.len() { if pts[k] == a { found = true; } ok = ok && o(a, b, pts[k]) >= 0; k += 1; }
        ok = ok && found;
        i += 1;
    }
    ok
}
/// three collinear points whose exact distances from the chord differ by 2 units at magnitude 2^59 (they tie
/// in f64); the middle one is last in slice order
#[cfg(kani)]
fn big_points() -> Vec<Coord<i64>> {
    let c = |x: i64, y: i64| Coord { x, y };
    vec![c(0, 0), c(1073741824, 1), c(536870912, 536870912), c(536870916, 536870912), c(536870914, 536870912)]
}
#[cfg(kani)] #[kani::proof] #[kani::unwind(12)]
fn c08_k_quick_hull_large_i64() {
    let mut w = big_points();
    let h = qhull::quick_hull(&mut w);
    assert!(is_strict_hull_of_i64(&h, &big_points()));
}
// (graham_hull on the same input does not finish in CBMC within 400 s: not registered)

#[cfg(kani)]
include!(concat!(env!("GEO_VERIF_DIR"), "/.work/playback/pb_c08.rs"));
