// harnesses for the private items of the hooked module (see lib/registry.py)

#[cfg(kani)]
include!(concat!(env!("GEO_VERIF_DIR"), "/.work/playback/pb_c08.rs"));
