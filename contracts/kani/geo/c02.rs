// ======================================================================================
// C02 / C03 -- point-location and intersects kernels against the point-set oracle.
// Scalar i32 on the lattice |c| <= LAT (so i32 products fit: the precondition of C03 for
// integer types); loop-free harnesses are COMPLETE for that lattice.
// ======================================================================================
#[cfg(kani)]
macro_rules! k_harness {
    ($name:ident, $body:ident ( $($arg:expr),* )) => {
        #[cfg(kani)]
        #[kani::proof]
        #[kani::unwind(8)]
        fn $name() { $body($($arg),*); }
    };
}

#[cfg(kani)]
pub(crate) const LAT: i32 = 6;

#[cfg(kani)]
pub(crate) fn sp(c: Coord<i32>) -> spec::P { spec::P { x: c.x, y: c.y } }

#[cfg(kani)]
pub(crate) fn pos_eq(a: CoordPos, b: spec::Pos) -> bool {
    match (a, b) {
        (CoordPos::Inside, spec::Pos::Inside) | (CoordPos::OnBoundary, spec::Pos::OnBoundary) | (CoordPos::Outside, spec::Pos::Outside) => true,
        _ => false,
    }
}

// ---- kernel: SimpleKernel::orient2d at i32 is the exact sign when products fit (C03 clause 2)
#[cfg(kani)]
#[kani::proof]
fn c03_k_simple_kernel_i32() {
    let (p, q, r) = (lat_coord_i32(1 << 14), lat_coord_i32(1 << 14), lat_coord_i32(1 << 14));
    let o = <i32 as GeoNum>::Ker::orient2d(p, q, r);
    let e = spec::orient(sp(p), sp(q), sp(r));
    assert!(match o { Orientation::CounterClockwise => e == 1, Orientation::Clockwise => e == -1, Orientation::Collinear => e == 0 });
    kani::cover!(e == 0 && p != q && q != r, "collinear distinct");
}

// ---- Line x Coord, Rect x Coord, Triangle x Coord: intersects and position (complete on lattice)
#[cfg(kani)]
#[kani::proof]
fn c02_k_line_coord() {
    let (a, b, p) = (lat_coord_i32(LAT), lat_coord_i32(LAT), lat_coord_i32(LAT));
    let l = Line::new(a, b);
    let on = spec::on_segment(sp(p), sp(a), sp(b));
    assert!(l.intersects(&p) == on);
    assert!(p.intersects(&l) == on);
    assert!(l.intersects(&Point(p)) == on);
    let pos = l.coordinate_position(&p);
    // OGC: the boundary of a line is its two end points (none when degenerate)
    let want = if !on { spec::Pos::Outside } else if a != b && (p == a || p == b) { spec::Pos::OnBoundary } else { spec::Pos::Inside };
    assert!(pos_eq(pos, want));
    kani::cover!(on && p != a && p != b, "interior hit");
}

#[cfg(kani)]
#[kani::proof]
fn c02_k_rect_coord() {
    let (a, b, p) = (lat_coord_i32(LAT), lat_coord_i32(LAT), lat_coord_i32(LAT));
    let r = Rect::new(a, b);
    let want = spec::rect_pos(sp(p), sp(r.min()), sp(r.max()));
    assert!(r.intersects(&p) == (want != spec::Pos::Outside));
    assert!(p.intersects(&r) == (want != spec::Pos::Outside));
    // a rect degenerate in one axis has no interior; geo treats it as all-boundary as well
    assert!(pos_eq(r.coordinate_position(&p), want));
    kani::cover!(want == spec::Pos::Inside, "inside");
}

#[cfg(kani)]
#[kani::proof]
fn c02_k_tri_intersects_coord() {
    let (a, b, c, p) = (lat_coord_i32(LAT), lat_coord_i32(LAT), lat_coord_i32(LAT), lat_coord_i32(LAT));
    let t = Triangle(a, b, c);
    let want = spec::tri_pos(sp(p), sp(a), sp(b), sp(c));
    assert!(t.intersects(&p) == (want != spec::Pos::Outside));
    kani::cover!(want == spec::Pos::OnBoundary && p != a && p != b && p != c, "on an edge");
}

#[cfg(kani)]
#[kani::proof]
fn c02_k_tri_pos() {
    let (a, b, c, p) = (lat_coord_i32(LAT), lat_coord_i32(LAT), lat_coord_i32(LAT), lat_coord_i32(LAT));
    // non-degenerate triangles (a degenerate triangle has no interior and is not a valid geometry)
    kani::assume(spec::orient(sp(a), sp(b), sp(c)) != 0);
    let t = Triangle(a, b, c);
    let want = spec::tri_pos(sp(p), sp(a), sp(b), sp(c));
    assert!(pos_eq(t.coordinate_position(&p), want));
    kani::cover!(want == spec::Pos::OnBoundary && p != a && p != b && p != c, "on an edge");
    kani::cover!(want == spec::Pos::Inside, "inside");
}

// ---- segment x segment (complete on lattice)
#[cfg(kani)]
#[kani::proof]
fn c02_k_line_line() {
    let (a, b, c, d) = (lat_coord_i32(LAT), lat_coord_i32(LAT), lat_coord_i32(LAT), lat_coord_i32(LAT));
    let (l1, l2) = (Line::new(a, b), Line::new(c, d));
    let want = spec::seg_meet(sp(a), sp(b), sp(c), sp(d));
    assert!(l1.intersects(&l2) == want);
    assert!(l2.intersects(&l1) == want);
    kani::cover!(want && spec::orient(sp(a), sp(b), sp(c)) == 0 && spec::orient(sp(a), sp(b), sp(d)) == 0 && a != b && c != d, "collinear overlap");
}

#[cfg(kani)]
#[kani::proof]
fn c02_k_rect_rect() {
    let r1 = Rect::new(lat_coord_i32(LAT), lat_coord_i32(LAT));
    let r2 = Rect::new(lat_coord_i32(LAT), lat_coord_i32(LAT));
    let want = r1.min().x <= r2.max().x && r2.min().x <= r1.max().x && r1.min().y <= r2.max().y && r2.min().y <= r1.max().y;
    assert!(r1.intersects(&r2) == want);
    assert!(r2.intersects(&r1) == want);
}

#[cfg(kani)]
#[kani::proof]
fn c02_k_rect_line() {
    let r = Rect::new(lat_coord_i32(LAT), lat_coord_i32(LAT));
    let (a, b) = (lat_coord_i32(LAT), lat_coord_i32(LAT));
    let l = Line::new(a, b);
    let (mn, mx) = (sp(r.min()), sp(r.max()));
    let c1 = spec::P { x: mx.x, y: mn.y };
    let c3 = spec::P { x: mn.x, y: mx.y };
    // the segment meets the closed rectangle iff an end point is in it or it crosses one of the four sides
    let want = spec::rect_pos(sp(a), mn, mx) != spec::Pos::Outside || spec::rect_pos(sp(b), mn, mx) != spec::Pos::Outside
        || spec::seg_meet(sp(a), sp(b), mn, c1) || spec::seg_meet(sp(a), sp(b), c1, mx)
        || spec::seg_meet(sp(a), sp(b), mx, c3) || spec::seg_meet(sp(a), sp(b), c3, mn);
    assert!(r.intersects(&l) == want);
    assert!(l.intersects(&r) == want);
}

// ---- ring walk: K twin of Verus obligation C02.V.coord_pos_relative_to_ring (bounded: ring size n)
#[cfg(kani)]
fn body_ring_pos(n: usize) {
    let mut ring = lat_ring_i32(n, LAT);
    if n > 0 { let f = ring.0[0]; ring.0.push(f); }     // closed ring of n+1 coordinates
    let p = lat_coord_i32(LAT);
    let mut pts = [spec::P { x: 0, y: 0 }; 8];
    let mut i = 0;
    while i < ring.0.len() { pts[i] = sp(ring.0[i]); i += 1; }
    let want = spec::ring_pos(sp(p), &pts[..ring.0.len()]);
    assert!(pos_eq(coord_pos_relative_to_ring(p, &ring), want));
    kani::cover!(want == spec::Pos::OnBoundary, "boundary");
}
k_harness!(c02_k_ring_pos_1, body_ring_pos(1));
k_harness!(c02_k_ring_pos_3, body_ring_pos(3));
k_harness!(c02_k_ring_pos_4, body_ring_pos(4));
