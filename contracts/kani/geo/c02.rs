// ======================================================================================
// C02 / C03 -- point-location and intersects kernels against the point-set oracle.
// Scalar i16 on the lattice |c| <= LAT (so i16 products fit: the precondition of C03 for
// integer types); loop-free harnesses are COMPLETE for that lattice.
// ======================================================================================
#[cfg(kani)]
macro_rules! k_harness {
    ($name:ident, $body:ident ( $($arg:expr),* )) => {
        #[cfg(kani)]
        #[kani::proof]
        #[kani::unwind(8)]
        fn $name() { $body($($arg),*); }
    };
}

#[cfg(kani)]
macro_rules! k_harness12 {
    ($name:ident, $body:ident ( $($arg:expr),* )) => {
        #[cfg(kani)]
        #[kani::proof]
        #[kani::unwind(12)]
        fn $name() { $body($($arg),*); }
    };
}

#[cfg(kani)]
pub(crate) const LAT: i16 = 6;

#[cfg(kani)]
pub(crate) fn sp(c: Coord<i16>) -> spec::P { spec::P { x: c.x, y: c.y } }

#[cfg(kani)]
pub(crate) fn pos_eq(a: CoordPos, b: spec::Pos) -> bool {
    match (a, b) {
        (CoordPos::Inside, spec::Pos::Inside) | (CoordPos::OnBoundary, spec::Pos::OnBoundary) | (CoordPos::Outside, spec::Pos::Outside) => true,
        _ => false,
    }
}

// ---- kernel: SimpleKernel::orient2d at i32 is the exact sign when products fit (C03 clause 2)
#[cfg(kani)]
#[kani::proof]
fn c03_k_simple_kernel_i16() {
    let (p, q, r) = (lat_coord_i16(64), lat_coord_i16(64), lat_coord_i16(64));
    let o = <i16 as GeoNum>::Ker::orient2d(p, q, r);
    let e = spec::orient(sp(p), sp(q), sp(r));
    assert!(match o { Orientation::CounterClockwise => e == 1, Orientation::Clockwise => e == -1, Orientation::Collinear => e == 0 });
    kani::cover!(e == 0 && p != q && q != r, "collinear distinct");
}

// ---- Line x Coord, Rect x Coord, Triangle x Coord: intersects and position (complete on lattice)
#[cfg(kani)]
#[kani::proof]
fn c02_k_line_coord() {
    let (a, b, p) = (lat_coord_i16(LAT), lat_coord_i16(LAT), lat_coord_i16(LAT));
    let l = Line::new(a, b);
    let on = spec::on_segment(sp(p), sp(a), sp(b));
    assert!(l.intersects(&p) == on);
    assert!(p.intersects(&l) == on);
    assert!(l.intersects(&Point(p)) == on);
    let pos = l.coordinate_position(&p);
    // OGC: the boundary of a line is its two end points (none when degenerate)
    let want = if !on { spec::Pos::Outside } else if a != b && (p == a || p == b) { spec::Pos::OnBoundary } else { spec::Pos::Inside };
    assert!(pos_eq(pos, want));
    kani::cover!(on && p != a && p != b, "interior hit");
}

#[cfg(kani)]
#[kani::proof]
fn c02_k_rect_coord() {
    let (a, b, p) = (lat_coord_i16(LAT), lat_coord_i16(LAT), lat_coord_i16(LAT));
    let r = Rect::new(a, b);
    let want = spec::rect_pos(sp(p), sp(r.min()), sp(r.max()));
    assert!(r.intersects(&p) == (want != spec::Pos::Outside));
    assert!(p.intersects(&r) == (want != spec::Pos::Outside));
    // a rect degenerate in one axis has no interior; geo treats it as all-boundary as well
    assert!(pos_eq(r.coordinate_position(&p), want));
    kani::cover!(want == spec::Pos::Inside, "inside");
}

#[cfg(kani)]
#[kani::proof]
fn c02_k_tri_intersects_coord() {
    let (a, b, c, p) = (lat_coord_i16(LAT), lat_coord_i16(LAT), lat_coord_i16(LAT), lat_coord_i16(LAT));
    kani::assume(spec::orient(sp(a), sp(b), sp(c)) != 0);   // a collinear "triangle" is not a valid geometry
    let t = Triangle(a, b, c);
    let want = spec::tri_pos(sp(p), sp(a), sp(b), sp(c));
    assert!(t.intersects(&p) == (want != spec::Pos::Outside));
    kani::cover!(want == spec::Pos::OnBoundary && p != a && p != b && p != c, "on an edge");
}

#[cfg(kani)]
#[kani::proof]
fn c02_k_tri_pos() {
    let (a, b, c, p) = (lat_coord_i16(LAT), lat_coord_i16(LAT), lat_coord_i16(LAT), lat_coord_i16(LAT));
    // non-degenerate triangles (a degenerate triangle has no interior and is not a valid geometry)
    kani::assume(spec::orient(sp(a), sp(b), sp(c)) != 0);
    let t = Triangle(a, b, c);
    let want = spec::tri_pos(sp(p), sp(a), sp(b), sp(c));
    assert!(pos_eq(t.coordinate_position(&p), want));
    kani::cover!(want == spec::Pos::OnBoundary && p != a && p != b && p != c, "on an edge");
    kani::cover!(want == spec::Pos::Inside, "inside");
}

// ---- segment x segment (complete on lattice)
#[cfg(kani)]
#[kani::proof]
fn c02_k_line_line() {
    let (a, b, c, d) = (lat_coord_i16(LAT), lat_coord_i16(LAT), lat_coord_i16(LAT), lat_coord_i16(LAT));
    let (l1, l2) = (Line::new(a, b), Line::new(c, d));
    let want = spec::seg_meet(sp(a), sp(b), sp(c), sp(d));
    assert!(l1.intersects(&l2) == want);
    assert!(l2.intersects(&l1) == want);
    kani::cover!(want && spec::orient(sp(a), sp(b), sp(c)) == 0 && spec::orient(sp(a), sp(b), sp(d)) == 0 && a != b && c != d, "collinear overlap");
}

#[cfg(kani)]
#[kani::proof]
fn c02_k_rect_rect() {
    let r1 = Rect::new(lat_coord_i16(LAT), lat_coord_i16(LAT));
    let r2 = Rect::new(lat_coord_i16(LAT), lat_coord_i16(LAT));
    let want = r1.min().x <= r2.max().x && r2.min().x <= r1.max().x && r1.min().y <= r2.max().y && r2.min().y <= r1.max().y;
    assert!(r1.intersects(&r2) == want);
    assert!(r2.intersects(&r1) == want);
}

#[cfg(kani)]
#[kani::proof]
fn c02_k_rect_line() {
    let r = Rect::new(lat_coord_i16(LAT), lat_coord_i16(LAT));
    let (a, b) = (lat_coord_i16(LAT), lat_coord_i16(LAT));
    let l = Line::new(a, b);
    let (mn, mx) = (sp(r.min()), sp(r.max()));
    let c1 = spec::P { x: mx.x, y: mn.y };
    let c3 = spec::P { x: mn.x, y: mx.y };
    // the segment meets the closed rectangle iff an end point is in it or it crosses one of the four sides
    let want = spec::rect_pos(sp(a), mn, mx) != spec::Pos::Outside || spec::rect_pos(sp(b), mn, mx) != spec::Pos::Outside
        || spec::seg_meet(sp(a), sp(b), mn, c1) || spec::seg_meet(sp(a), sp(b), c1, mx)
        || spec::seg_meet(sp(a), sp(b), mx, c3) || spec::seg_meet(sp(a), sp(b), c3, mn);
    assert!(r.intersects(&l) == want);
    assert!(l.intersects(&r) == want);
}

// ---- ring walk: K twin of Verus obligation C02.V.coord_pos_relative_to_ring (bounded: ring size n)
#[cfg(kani)]
fn body_ring_pos(n: usize) {
    let mut ring = lat_ring_i16(n, LAT);
    if n > 0 { let f = ring.0[0]; ring.0.push(f); }     // closed ring of n+1 coordinates
    let p = lat_coord_i16(LAT);
    let mut pts = [spec::P { x: 0, y: 0 }; 8];
    let mut i = 0;
    while i < ring.0.len() { pts[i] = sp(ring.0[i]); i += 1; }
    let want = spec::ring_pos(sp(p), &pts[..ring.0.len()]);
    assert!(pos_eq(coord_pos_relative_to_ring(p, &ring), want));
    kani::cover!(want == spec::Pos::OnBoundary, "boundary");
}
k_harness!(c02_k_ring_pos_1, body_ring_pos(1));
k_harness!(c02_k_ring_pos_3, body_ring_pos(3));
k_harness!(c02_k_ring_pos_4, body_ring_pos(4));

// ---- Contains for the loop-free kernels (complete on lattice) ---------------------------------
#[cfg(kani)]
#[kani::proof]
fn c02_k_contains_line_coord() {
    let (a, b, p) = (lat_coord_i16(LAT), lat_coord_i16(LAT), lat_coord_i16(LAT));
    let l = Line::new(a, b);
    // interior of a segment = the segment minus its end points; a degenerate line is a point (all interior)
    let want = if a == b { p == a } else { spec::in_segment_interior(sp(p), sp(a), sp(b)) };
    assert!(l.contains(&p) == want);
    assert!(l.contains(&Point(p)) == want);
    assert!(p.is_within(&l) == want);
    assert!(Point(p).is_within(&l) == want);
}

#[cfg(kani)]
#[kani::proof]
fn c02_k_contains_line_line() {
    let (a, b, c, d) = (lat_coord_i16(LAT), lat_coord_i16(LAT), lat_coord_i16(LAT), lat_coord_i16(LAT));
    let (l1, l2) = (Line::new(a, b), Line::new(c, d));
    // T*****FF*: every point of l2 on l1, and the interiors meet
    let want = if c == d {
        if a == b { c == a } else { spec::in_segment_interior(sp(c), sp(a), sp(b)) }
    } else {
        spec::on_segment(sp(c), sp(a), sp(b)) && spec::on_segment(sp(d), sp(a), sp(b))
    };
    assert!(l1.contains(&l2) == want);
    assert!(l2.is_within(&l1) == want);
    kani::cover!(want && c != d && c != a && d != b, "proper sub-segment");
}

#[cfg(kani)]
#[kani::proof]
fn c02_k_contains_rect() {
    let (a, b, p) = (lat_coord_i16(LAT), lat_coord_i16(LAT), lat_coord_i16(LAT));
    let r = Rect::new(a, b);
    let pos = spec::rect_pos(sp(p), sp(r.min()), sp(r.max()));
    let nondegenerate = r.min().x < r.max().x && r.min().y < r.max().y;
    if nondegenerate {
        assert!(r.contains(&p) == (pos == spec::Pos::Inside));
        assert!(p.is_within(&r) == (pos == spec::Pos::Inside));
    }
    let r2 = Rect::new(lat_coord_i16(LAT), lat_coord_i16(LAT));
    if nondegenerate && r2.min().x < r2.max().x && r2.min().y < r2.max().y {
        let inside = r.min().x <= r2.min().x && r2.max().x <= r.max().x && r.min().y <= r2.min().y && r2.max().y <= r.max().y;
        assert!(r.contains(&r2) == inside);
        assert!(r2.is_within(&r) == inside);
    }
}

#[cfg(kani)]
#[kani::proof]
fn c02_k_contains_tri_coord() {
    let (a, b, c, p) = (lat_coord_i16(LAT), lat_coord_i16(LAT), lat_coord_i16(LAT), lat_coord_i16(LAT));
    kani::assume(spec::orient(sp(a), sp(b), sp(c)) != 0);
    let t = Triangle(a, b, c);
    let want = spec::tri_pos(sp(p), sp(a), sp(b), sp(c)) == spec::Pos::Inside;
    assert!(t.contains(&p) == want);
    assert!(t.contains(&Point(p)) == want);
}

/// the accumulator contract of `calculate_coordinate_position` (the comment on the trait): an impl may
/// only SET is_inside and only ADD to boundary_count -- it must not reset what other members found
#[cfg(kani)]
#[kani::proof]
fn c02_k_tri_accumulates() {
    let (a, b, c, p) = (lat_coord_i16(LAT), lat_coord_i16(LAT), lat_coord_i16(LAT), lat_coord_i16(LAT));
    kani::assume(spec::orient(sp(a), sp(b), sp(c)) != 0);
    let t = Triangle(a, b, c);
    let inside0: bool = kani::any();
    let count0: usize = kani::any();
    kani::assume(count0 < 10);
    let (mut inside, mut count) = (inside0, count0);
    t.calculate_coordinate_position(&p, &mut inside, &mut count);
    let want = spec::tri_pos(sp(p), sp(a), sp(b), sp(c));
    assert!(inside == (inside0 || want == spec::Pos::Inside));
    assert!(count == count0 + if want == spec::Pos::OnBoundary { 1 } else { 0 });
}

// ---- LineString / Polygon / Multi* position (bounded: concrete sizes) ---------------------------
#[cfg(kani)]
fn to_pts(ls: &LineString<i16>) -> ([spec::P; 8], usize) {
    let mut pts = [spec::P { x: 0, y: 0 }; 8];
    let mut i = 0;
    while i < ls.0.len() { pts[i] = sp(ls.0[i]); i += 1; }
    (pts, ls.0.len())
}

#[cfg(kani)]
fn body_linestring_pos(n: usize, close: bool) {
    let mut ls = lat_ring_i16(n, LAT);
    if close { let f = ls.0[0]; ls.0.push(f); }
    let p = lat_coord_i16(LAT);
    let (pts, len) = to_pts(&ls);
    let want = spec::linestring_pos(sp(p), &pts[..len]);
    assert!(pos_eq(ls.coordinate_position(&p), want));
    assert!(ls.intersects(&p) == (want != spec::Pos::Outside));
    kani::cover!(want == spec::Pos::OnBoundary, "end point");
}
k_harness!(c02_k_linestring_pos_2, body_linestring_pos(2, false));
k_harness!(c02_k_linestring_pos_3, body_linestring_pos(3, false));

#[cfg(kani)]
fn body_polygon_pos(n: usize) {
    let mut ring = lat_ring_i16(n, LAT);
    let f = ring.0[0]; ring.0.push(f);
    let p = lat_coord_i16(LAT);
    let (pts, len) = to_pts(&ring);
    let want = spec::ring_pos(sp(p), &pts[..len]);
    let poly = Polygon::new(ring, Vec::new());
    assert!(pos_eq(poly.coordinate_position(&p), want));
    assert!(poly.contains(&p) == (want == spec::Pos::Inside));
    assert!(poly.intersects(&p) == (want != spec::Pos::Outside));
}
k_harness!(c02_k_polygon_pos_3, body_polygon_pos(3));

/// MultiPolygon of two unit squares touching at one vertex, at a symbolic integer offset.
/// `.main`: every lattice point EXCEPT the shared vertex; `.finding`: the shared vertex (known finding D8).
#[cfg(kani)]
fn two_touching_squares(dx: i16, dy: i16) -> (MultiPolygon<i16>, Coord<i16>) {
    let c = |x: i16, y: i16| Coord { x: x + dx, y: y + dy };
    let mut r1 = Vec::with_capacity(8); r1.push(c(0, 0)); r1.push(c(2, 0)); r1.push(c(2, 2)); r1.push(c(0, 2)); r1.push(c(0, 0));
    let mut r2 = Vec::with_capacity(8); r2.push(c(2, 2)); r2.push(c(4, 2)); r2.push(c(4, 4)); r2.push(c(2, 4)); r2.push(c(2, 2));
    let mut v = Vec::with_capacity(2);
    v.push(Polygon::new(LineString(r1), Vec::new()));
    v.push(Polygon::new(LineString(r2), Vec::new()));
    (MultiPolygon(v), c(2, 2))
}

// (a `.main` harness over all other query points does not finish symbolic execution in 600 s: not registered)
#[cfg(kani)]
#[kani::proof]
#[kani::unwind(8)]
fn c02_k_multipolygon_pos_finding_shared_vertex() {
    let (mp, shared) = two_touching_squares(0, 0);
    // the shared vertex is a boundary point of the union
    assert!(mp.coordinate_position(&shared) == CoordPos::OnBoundary);
}

/// two 2-coordinate line strings [a,b] and [b,c].  `.main`: every query point except the shared end point b;
/// `.finding`: b itself (mod-2 rule: interior of the union) -- known finding D4.
#[cfg(kani)]
fn two_linestrings(a: Coord<i16>, b: Coord<i16>, c: Coord<i16>) -> MultiLineString<i16> {
    let mut v = Vec::with_capacity(2);
    let mut l1 = Vec::with_capacity(4); l1.push(a); l1.push(b);
    let mut l2 = Vec::with_capacity(4); l2.push(b); l2.push(c);
    v.push(LineString(l1)); v.push(LineString(l2));
    MultiLineString(v)
}

#[cfg(kani)]
#[kani::proof]
#[kani::unwind(8)]
fn c02_k_multilinestring_pos_main() {
    let (a, b, c, p) = (lat_coord_i16(LAT), lat_coord_i16(LAT), lat_coord_i16(LAT), lat_coord_i16(LAT));
    kani::assume(a != b && b != c && a != c);
    // simple linework: the two segments meet only at b
    kani::assume(!spec::on_segment(sp(a), sp(b), sp(c)) && !spec::on_segment(sp(c), sp(a), sp(b)));
    kani::assume(spec::orient(sp(a), sp(b), sp(c)) != 0 || !spec::on_segment(sp(b), sp(a), sp(c)) || true);
    kani::assume(p != b);
    let mls = two_linestrings(a, b, c);
    let on = spec::on_segment(sp(p), sp(a), sp(b)) || spec::on_segment(sp(p), sp(b), sp(c));
    let want = if !on { spec::Pos::Outside } else if p == a || p == c { spec::Pos::OnBoundary } else { spec::Pos::Inside };
    // (collinear overlapping segments are excluded: not simple)
    kani::assume(!(spec::orient(sp(a), sp(b), sp(c)) == 0 && (spec::on_segment(sp(a), sp(b), sp(c)) || spec::on_segment(sp(c), sp(a), sp(b)))));
    assert!(pos_eq(mls.coordinate_position(&p), want));
    assert!(mls.intersects(&p) == on);
}

#[cfg(kani)]
#[kani::proof]
#[kani::unwind(8)]
fn c02_k_multilinestring_pos_finding_shared_endpoint() {
    let (a, b, c) = (lat_coord_i16(LAT), lat_coord_i16(LAT), lat_coord_i16(LAT));
    kani::assume(a != b && b != c && a != c);
    kani::assume(!spec::on_segment(sp(a), sp(b), sp(c)) && !spec::on_segment(sp(c), sp(a), sp(b)));
    let mls = two_linestrings(a, b, c);
    assert!(mls.coordinate_position(&b) == CoordPos::Inside);
    assert!(mls.contains(&Point(b)));
}

// ---- LineString: Contains<Line> -------------------------------------------------------------
/// oracle: the non-degenerate segment [c,d] is covered by the union of the segments of `pts`
/// (interval union along the direction of cd; exact integer arithmetic)
#[cfg(kani)]
fn covered_by(c: spec::P, d: spec::P, pts: &[spec::P]) -> bool {
    let dir = spec::P { x: d.x - c.x, y: d.y - c.y };
    let len = dir.x * dir.x + dir.y * dir.y;
    // parameter of a point on the carrier line
    let t = |p: spec::P| (p.x - c.x) * dir.x + (p.y - c.y) * dir.y;
    // intervals of the collinear, non-degenerate segments
    let mut lo = [0 as spec::S; 8];
    let mut hi = [0 as spec::S; 8];
    let mut m = 0;
    let mut i = 0;
    while i + 1 < pts.len() {
        let (a, b) = (pts[i], pts[i + 1]);
        if spec::cross(c, d, a) == 0 && spec::cross(c, d, b) == 0 && a != b {
            let (ta, tb) = (t(a), t(b));
            lo[m] = if ta < tb { ta } else { tb };
            hi[m] = if ta < tb { tb } else { ta };
            m += 1;
        }
        i += 1;
    }
    // [0,len] is covered iff 0 is covered and every interval end e < len inside is continued by an interval with lo <= e < hi
    let cov = |e: spec::S| { let mut k = 0; let mut ok = false; while k < m { if lo[k] <= e && e < hi[k] { ok = true; } k += 1; } ok };
    if !cov(0) { return false; }
    let mut k = 0;
    let mut ok = true;
    while k < m {
        if hi[k] >= 0 && hi[k] < len && !cov(hi[k]) { ok = false; }
        k += 1;
    }
    ok
}

#[cfg(kani)]
fn body_ls_contains_line(n: usize, close: bool, lat: i16) {
    let mut ls = lat_ring_i16(n, lat);
    if close { let f = ls.0[0]; ls.0.push(f); }
    let (c, d) = (lat_coord_i16(lat), lat_coord_i16(lat));
    kani::assume(c != d);
    let (pts, len) = to_pts(&ls);
    let want = covered_by(sp(c), sp(d), &pts[..len]);
    let line = Line::new(c, d);
    assert!(ls.contains(&line) == want);
    assert!(line.is_within(&ls) == want);
    kani::cover!(want, "covered");
}
k_harness!(c02_k_ls_contains_line_open3, body_ls_contains_line(3, false, 4));

/// ring-start invariance (C01/C02: the result does not depend on where a closed ring starts): the same closed
/// ring written from vertex 0 and from vertex k contains the same segments
#[cfg(kani)]
fn body_ring_contains_line_rotation(n: usize, k: usize, lat: i16) {
    let base = lat_ring_i16(n, lat);
    let (c, d) = (lat_coord_i16(lat), lat_coord_i16(lat));
    kani::assume(c != d);
    // restrict to the coincidence class that matters: the query runs along the line y = c.y = d.y = first vertex' y
    kani::assume(c.y == d.y && base.0[0].y == c.y);
    let mut r0 = Vec::with_capacity(8);
    let mut rk = Vec::with_capacity(8);
    let mut i = 0;
    while i <= n { r0.push(base.0[i % n]); rk.push(base.0[(i + k) % n]); i += 1; }
    let (r0, rk) = (LineString(r0), LineString(rk));
    let line = Line::new(c, d);
    assert!(r0.contains(&line) == rk.contains(&line));
}
k_harness12!(c02_k_ring_contains_line_rot_5_1, body_ring_contains_line_rotation(5, 1, 3));
k_harness12!(c02_k_ring_contains_line_rot_5_2, body_ring_contains_line_rotation(5, 2, 3));

/// K twin of C02.V.polygon_position: a literal 8x8 shell with a 2x2 hole, every lattice query point, through
/// the accumulator interface (is_inside may only be set, boundary_count only incremented) and the public API
#[cfg(kani)]
#[kani::proof]
#[kani::unwind(8)]
fn c02_k_polygon_with_hole_pos() {
    let c = |x: i16, y: i16| Coord { x, y };
    let poly = Polygon::new(LineString(vec![c(0, 0), c(8, 0), c(8, 8), c(0, 8), c(0, 0)]), vec![LineString(vec![c(2, 2), c(2, 4), c(4, 4), c(4, 2), c(2, 2)])]);
    let p = lat_coord_i16(9);
    let shell = spec::rect_pos(sp(p), spec::P { x: 0, y: 0 }, spec::P { x: 8, y: 8 });
    let hole = spec::rect_pos(sp(p), spec::P { x: 2, y: 2 }, spec::P { x: 4, y: 4 });
    let want = if shell == spec::Pos::Outside { spec::Pos::Outside } else if shell == spec::Pos::OnBoundary || hole == spec::Pos::OnBoundary { spec::Pos::OnBoundary }
        else if hole == spec::Pos::Inside { spec::Pos::Outside } else { spec::Pos::Inside };
    let inside0: bool = kani::any();
    let count0: usize = kani::any();
    kani::assume(count0 < 10);
    let (mut inside, mut count) = (inside0, count0);
    poly.calculate_coordinate_position(&p, &mut inside, &mut count);
    assert!(inside == (inside0 || want == spec::Pos::Inside));
    assert!(count == count0 + if want == spec::Pos::OnBoundary { 1 } else { 0 });
    assert!(pos_eq(poly.coordinate_position(&p), want));
    assert!(poly.contains(&p) == (want == spec::Pos::Inside) && poly.intersects(&p) == (want != spec::Pos::Outside));
    kani::cover!(hole == spec::Pos::Inside, "inside the hole");
}
