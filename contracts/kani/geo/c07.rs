// ======================================================================================
// C07 -- Euclidean distance: "exactly zero precisely when the geometries intersect" and symmetry, for the
// point / segment kernels on the integer lattice (robust::orient2d stubbed by its assumed contract, f64::hypot
// modelled).  Numeric minimality, and every pair that goes through the R-tree nearest-neighbour search
// (LineString / Polygon pairs), are NOT decided.
// ======================================================================================
use crate::line_measures::Euclidean;

#[cfg(kani)]
fn tiny() -> i8 { let v: i8 = kani::any(); kani::assume(-3 <= v && v <= 3); v }

/// points on one row: distance is |dx|, zero exactly for equal points, symmetric
#[cfg(kani)]
#[kani::proof]
#[kani::stub(f64::hypot, hypot_model)]
fn c07_k_point_point_row() {
    let (ax_, bx, y) = (tiny(), tiny(), tiny());
    let (a, b) = (Point::new(ax_ as f64, y as f64), Point::new(bx as f64, y as f64));
    let d = Euclidean.distance(a, b);
    assert!(d == ((ax_ as i32 - bx as i32).abs()) as f64);
    assert!(Euclidean.distance(b, a) == d && Euclidean.distance(a.0, b.0) == d);
    assert!((d == 0.0) == (ax_ == bx));
}

/// point x axis-parallel segment, query point on the carrier line or straight above the segment: the exact
/// distance, zero exactly when the point is on the segment, operand order / Point vs Coord typing irrelevant
#[cfg(kani)]
#[kani::proof]
#[kani::stub(f64::hypot, hypot_model)]
fn c07_k_point_axis_line() {
    let (a, b, px, py) = (tiny(), tiny(), tiny(), tiny());
    kani::assume(a != b);
    let (lo, hi) = if a < b { (a, b) } else { (b, a) };
    kani::assume(py == 0 || (lo <= px && px <= hi));
    let l = Line::new(Coord { x: a as f64, y: 0.0 }, Coord { x: b as f64, y: 0.0 });
    let p = Point::new(px as f64, py as f64);
    let d = Euclidean.distance(&p, &l);
    let want = if py != 0 { (py as i32).abs() } else if px < lo { (lo - px) as i32 } else if px > hi { (px - hi) as i32 } else { 0 };
    assert!(d == want as f64);
    assert!(Euclidean.distance(&l, &p) == d && Euclidean.distance(p.0, &l) == d && Euclidean.distance(&l, p.0) == d);
}

// ======================================================================================
// C07 (geo-types private_utils, reached from geo where the feature gate of that module is on): the point-on-line-string test that gates the "distance is zero" early-out of
// `point_line_string_euclidean_distance` -- literal axis-parallel and slanted segments, lattice query points.
// BOUNDED (menu of literal line strings); f64::hypot modelled.
// ======================================================================================
use geo_types::private_utils::{line_string_contains_point, point_line_string_euclidean_distance};


/// an L-shaped line string (horizontal then vertical segment): a lattice point is "contained" exactly when it lies
/// on one of the two segments; the distance is zero exactly then
#[cfg(kani)]
#[kani::proof]
#[kani::unwind(6)]
#[kani::stub(f64::hypot, hypot_model)]
fn c07_k_line_string_contains_point_axis() {
    let c = |x: f64, y: f64| Coord { x, y };
    let ls = LineString(vec![c(1.0, 2.0), c(5.0, 2.0), c(5.0, 6.0)]);
    let (px, py): (i8, i8) = (kani::any(), kani::any());
    kani::assume(-1 <= px && px <= 8 && -1 <= py && py <= 8);
    let p = Point(c(px as f64, py as f64));
    let on = (py == 2 && 1 <= px && px <= 5) || (px == 5 && 2 <= py && py <= 6);
    assert!(line_string_contains_point(&ls, p) == on);
    let d = point_line_string_euclidean_distance(p, &ls);
    assert!((d == 0.0) == on);
    kani::cover!(px == 1 && py == 7, "same x as the start vertex of the horizontal segment, off the line string");
}

/// Line x open LineString whose closest approach is between the LAST (resp. FIRST) vertex of the line string and the
/// interior of the line: every vertex of the line string is measured against the line, the value does not depend on the
/// direction in which the line string is written nor on the operand order.  BOUNDED: literal shapes (3-4-5 offsets, so the
/// end-point distances are exact).
#[cfg(kani)]
#[kani::proof]
#[kani::unwind(6)]
#[kani::stub(f64::hypot, hypot_model)]
#[kani::stub(robust::orient2d, robust_orient2d_model)]
fn c07_k_line_linestring_last_vertex() {
    let c = |x: f64, y: f64| Coord { x, y };
    let line = Line::new(c(0.0, 0.0), c(6.0, 0.0));
    let down = LineString(vec![c(3.0, 14.0), c(3.0, 9.0), c(3.0, 4.0)]);
    let up = LineString(vec![c(3.0, 4.0), c(3.0, 9.0), c(3.0, 14.0)]);
    assert!(Euclidean.distance(&line, &down) == 4.0);
    assert!(Euclidean.distance(&line, &up) == 4.0);
    assert!(Euclidean.distance(&down, &line) == 4.0);
}
