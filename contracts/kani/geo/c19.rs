// ======================================================================================
// C19 -- traversal, mapping and bounding boxes are mutually consistent.
// BOUNDED: containers of concrete small sizes (stated per harness), symbolic i32 coordinates.
// One generic contract `check_traversal` is applied to every geometry type; the expected traversal
// (and its exterior sub-sequence) is written out per instance from the property statement.
// ======================================================================================
use crate::coords_iter::CoordsIter;
use crate::bounding_rect::BoundingRect;
use crate::map_coords::{MapCoords, MapCoordsInPlace};
use crate::lines_iter::LinesIter;

#[cfg(kani)]
const MAXC: usize = 12;

/// the generic contract
#[cfg(kani)]
fn check_traversal<G>(g: &G, want: &[Coord<i32>], want_ext: &[Coord<i32>])
where
    G: CoordsIter<Scalar = i32> + BoundingRect<i32> + MapCoords<i32, i32, Output = G> + MapCoordsInPlace<i32> + Clone,
{
    // coords_iter yields `want`, and coords_count is its length
    let mut n = 0;
    for c in g.coords_iter() {
        assert!(n < want.len() && c == want[n]);
        n += 1;
    }
    assert!(n == want.len());
    assert!(g.coords_count() == want.len());
    // exterior_coords_iter yields the exterior sub-sequence
    let mut m = 0;
    for c in g.exterior_coords_iter() {
        assert!(m < want_ext.len() && c == want_ext[m]);
        m += 1;
    }
    assert!(m == want_ext.len());
    // bounding_rect = componentwise min / max of the traversal, None exactly when there are no coordinates
    let br: Option<Rect<i32>> = g.bounding_rect().into();
    assert!(br.is_none() == want.is_empty());
    if let Some(r) = br {
        let (mut lo, mut hi) = (want[0], want[0]);
        let mut i = 1;
        while i < want.len() {
            if want[i].x < lo.x { lo.x = want[i].x; }
            if want[i].y < lo.y { lo.y = want[i].y; }
            if want[i].x > hi.x { hi.x = want[i].x; }
            if want[i].y > hi.y { hi.y = want[i].y; }
            i += 1;
        }
        assert!(r.min() == lo && r.max() == hi);
    }
}

/// map_coords(f): same shape, traversal = f applied to the traversal; agrees with map_coords_in_place and try_map_coords
#[cfg(kani)]
fn check_map<G>(g: &G, want: &[Coord<i32>])
where
    G: CoordsIter<Scalar = i32> + MapCoords<i32, i32, Output = G> + MapCoordsInPlace<i32> + Clone,
{
    let d: i32 = kani::any();
    kani::assume(-1000 <= d && d <= 1000);
    // a non-monotone, non-symmetric map on the small coordinates used here
    let f = move |c: Coord<i32>| Coord { x: c.y.wrapping_add(d), y: c.x.wrapping_mul(-3) };
    let mapped = g.map_coords(f);
    let mut n = 0;
    for c in mapped.coords_iter() {
        assert!(n < want.len() && c == f(want[n]));
        n += 1;
    }
    assert!(n == want.len());
    let mut inplace = g.clone();
    inplace.map_coords_in_place(f);
    let mut n = 0;
    for c in inplace.coords_iter() {
        assert!(c == f(want[n]));
        n += 1;
    }
    assert!(n == want.len());
    // a fallible map failing at position k: the error is propagated, otherwise the same result
    let k: usize = kani::any();
    let count = core::cell::Cell::new(0usize);
    let r = g.try_map_coords(|c| { let i = count.get(); count.set(i + 1); if i == k { Err(i) } else { Ok(f(c)) } });
    match r {
        Ok(m) => { assert!(k >= want.len()); let mut n = 0; for c in m.coords_iter() { assert!(c == f(want[n])); n += 1; } assert!(n == want.len()); }
        Err(e) => assert!(e == k && k < want.len()),
    }
}

/// N pairwise distinct coordinates.  The traversal / mapping code under test is parametric in the coordinate
/// values (it only copies them), so distinct concrete values identify every position of every traversal;
/// symbolic values are used only where the code compares coordinates (bounding boxes).  `sym` selects that.
#[cfg(kani)]
fn cs_mode<const N: usize>(sym: bool) -> [Coord<i32>; N] {
    let mut a = [Coord { x: 0, y: 0 }; N];
    let mut i = 0;
    while i < N {
        a[i] = if sym { lat_coord_i32(100) } else { Coord { x: (i as i32) * 7 + 1, y: 100 - (i as i32) * 3 } };
        i += 1;
    }
    a
}
#[cfg(kani)]
fn cs<const N: usize>() -> [Coord<i32>; N] { cs_mode::<N>(false) }
#[cfg(kani)]
fn ls_of(c: &[Coord<i32>]) -> LineString<i32> {
    let mut v = Vec::with_capacity(8);
    let mut i = 0;
    while i < c.len() { v.push(c[i]); i += 1; }
    LineString(v)
}

#[cfg(kani)]
#[kani::proof]
#[kani::unwind(14)]
fn c19_k_point_line_rect_triangle() {
    let c: [Coord<i32>; 3] = cs();
    check_traversal(&Point(c[0]), &[c[0]], &[c[0]]);
    check_traversal(&Line::new(c[0], c[1]), &[c[0], c[1]], &[c[0], c[1]]);
    check_traversal(&Triangle(c[0], c[1], c[2]), &c, &c);
    check_map(&Line::new(c[0], c[1]), &[c[0], c[1]]);
    let r = Rect::new(c[0], c[1]);
    let (mn, mx) = (r.min(), r.max());
    let want = [Coord { x: mx.x, y: mn.y }, mx, Coord { x: mn.x, y: mx.y }, mn];
    check_traversal(&r, &want, &want);
    // lines_iter: consecutive pairs of each linear component
    let mut k = 0;
    for l in Triangle(c[0], c[1], c[2]).lines_iter() {
        assert!(l.start == c[k] && l.end == c[(k + 1) % 3]);
        k += 1;
    }
    assert!(k == 3);
    let mut k = 0;
    for l in Line::new(c[0], c[1]).lines_iter() { assert!(l.start == c[0] && l.end == c[1]); k += 1; }
    assert!(k == 1);
}

/// bounding boxes compare coordinates: symbolic values, tiny containers
#[cfg(kani)]
#[kani::proof]
#[kani::unwind(14)]
fn c19_k_bounding_rect_symbolic() {
    let c: [Coord<i32>; 3] = cs_mode(true);
    let br = |want: &[Coord<i32>]| {
        let (mut lo, mut hi) = (want[0], want[0]);
        let mut i = 1;
        while i < want.len() {
            if want[i].x < lo.x { lo.x = want[i].x; }
            if want[i].y < lo.y { lo.y = want[i].y; }
            if want[i].x > hi.x { hi.x = want[i].x; }
            if want[i].y > hi.y { hi.y = want[i].y; }
            i += 1;
        }
        (lo, hi)
    };
    let (lo, hi) = br(&c);
    let r = ls_of(&c).bounding_rect().unwrap();
    assert!(r.min() == lo && r.max() == hi);
    let r = Triangle(c[0], c[1], c[2]).bounding_rect();
    assert!(r.min() == lo && r.max() == hi);
    let (lo2, hi2) = br(&c[..2]);
    let r = Line::new(c[0], c[1]).bounding_rect();
    assert!(r.min() == lo2 && r.max() == hi2);
    // a collection with an EMPTY member between two non-empty ones: the empty member contributes nothing
    let mut v = Vec::with_capacity(3);
    v.push(Geometry::Point(Point(c[0])));
    v.push(Geometry::LineString(LineString(Vec::new())));
    v.push(Geometry::Point(Point(c[1])));
    let r = GeometryCollection(v).bounding_rect().unwrap();
    assert!(r.min() == lo2 && r.max() == hi2);
    let mut v = Vec::with_capacity(2);
    v.push(Geometry::Point(Point(c[0])));
    v.push(Geometry::MultiPoint(MultiPoint(Vec::new())));
    let r = GeometryCollection(v).bounding_rect().unwrap();
    assert!(r.min() == c[0] && r.max() == c[0]);
}

/// Triangle::map_coords: `.main` the mapped triangle is counter-clockwise or flat; `.finding` it is clockwise
/// (Triangle::new re-orders the vertices -- the property exempts only Rect from "same traversal")
#[cfg(kani)]
#[kani::proof]
#[kani::unwind(14)]
fn c19_k_triangle_map_main() {
    let t = Triangle(Coord { x: 0, y: 0 }, Coord { x: 4, y: 0 }, Coord { x: 0, y: 3 });
    let d: i32 = kani::any();
    kani::assume(-100 <= d && d <= 100);
    let f = move |c: Coord<i32>| Coord { x: c.x + d, y: c.y - d };      // orientation preserving
    let m = t.map_coords(f);
    assert!(m.0 == f(t.0) && m.1 == f(t.1) && m.2 == f(t.2));
}
#[cfg(kani)]
#[kani::proof]
#[kani::unwind(14)]
fn c19_k_triangle_map_finding_reflection() {
    let t = Triangle(Coord { x: 0, y: 0 }, Coord { x: 4, y: 0 }, Coord { x: 0, y: 3 });
    let f = |c: Coord<i32>| Coord { x: -c.x, y: c.y };                    // a reflection
    let m = t.map_coords(f);
    assert!(m.0 == f(t.0) && m.1 == f(t.1) && m.2 == f(t.2));
}

#[cfg(kani)]
#[kani::proof]
#[kani::unwind(14)]
fn c19_k_linestring() {
    let c: [Coord<i32>; 3] = cs();
    let ls = ls_of(&c);
    check_traversal(&ls, &c, &c);
    check_map(&ls, &c);
    let mut k = 0;
    for l in ls.lines_iter() { assert!(l.start == c[k] && l.end == c[k + 1]); k += 1; }
    assert!(k == 2);
    // the Vec-returning twin of LineString::lines() used by the Verus units (prelude_geo.rs) states exactly this
    let mut k = 0;
    for l in ls.lines() { assert!(l.start == c[k] && l.end == c[k + 1]); k += 1; }
    assert!(k == 2);
    let empty = LineString::<i32>(Vec::new());
    check_traversal(&empty, &[], &[]);
    assert!(empty.lines().count() == 0 && ls_of(&c[..1]).lines().count() == 0);
}

#[cfg(kani)]
#[kani::proof]
#[kani::unwind(14)]
fn c19_k_polygon() {
    let e: [Coord<i32>; 3] = cs();
    let h: [Coord<i32>; 3] = cs();
    kani::assume(e[0] != e[2] && h[0] != h[2]);     // so that Polygon::new appends the closing coordinate
    let mut holes = Vec::with_capacity(1);
    holes.push(ls_of(&h));
    let p = Polygon::new(ls_of(&e), holes);
    let want = [e[0], e[1], e[2], e[0], h[0], h[1], h[2], h[0]];
    check_traversal(&p, &want, &want[..4]);
    check_map(&p, &want);
    // a fallible map failing on a hole coordinate (position 5 of the traversal) must propagate the error
    let count = core::cell::Cell::new(0usize);
    let r = p.try_map_coords(|c| { let i = count.get(); count.set(i + 1); if i == 5 { Err(i) } else { Ok(c) } });
    assert!(matches!(r, Err(5)));
    // inside a collection the exterior traversal leaves the hole out
    let mut gv = Vec::with_capacity(2);
    gv.push(Geometry::Polygon(p.clone()));
    gv.push(Geometry::Point(Point(Coord { x: -5, y: -5 })));
    let gc = GeometryCollection(gv);
    let want_gc_ext = [e[0], e[1], e[2], e[0], Coord { x: -5, y: -5 }];
    let mut m = 0;
    for c in gc.exterior_coords_iter() { assert!(m < 5 && c == want_gc_ext[m]); m += 1; }
    assert!(m == 5);
    let mut k = 0;
    for l in p.lines_iter() {
        // consecutive pairs WITHIN each ring (no line from the exterior's last to the hole's first coordinate)
        let i = if k < 3 { k } else { k + 1 };
        assert!(l.start == want[i] && l.end == want[i + 1]);
        k += 1;
    }
    assert!(k == 6);
}

#[cfg(kani)]
#[kani::proof]
#[kani::unwind(14)]
fn c19_k_multi_and_collection() {
    let c: [Coord<i32>; 5] = cs();
    // MultiPoint
    let mut pv = Vec::with_capacity(2); pv.push(Point(c[0])); pv.push(Point(c[1]));
    check_traversal(&MultiPoint(pv), &c[..2], &c[..2]);
    check_traversal(&MultiPoint::<i32>(Vec::new()), &[], &[]);
    // MultiLineString with an EMPTY member between two non-empty ones
    let mut lv = Vec::with_capacity(3); lv.push(ls_of(&c[..2])); lv.push(ls_of(&[])); lv.push(ls_of(&c[2..5]));
    let mls = MultiLineString(lv);
    check_traversal(&mls, &c, &c);
    check_map(&mls, &c);
    let mut k = 0;
    for l in mls.lines_iter() {
        let i = if k < 1 { k } else { k + 1 };
        assert!(l.start == c[i] && l.end == c[i + 1]);
        k += 1;
    }
    assert!(k == 3);
}

#[cfg(kani)]
#[kani::proof]
#[kani::unwind(14)]
fn c19_k_geometry_collection_nested() {
    let c: [Coord<i32>; 4] = cs();
    // GeometryCollection[ Point, LineString(2), GeometryCollection[ Point ], empty GeometryCollection ]
    let mut inner = Vec::with_capacity(1); inner.push(Geometry::Point(Point(c[3])));
    let mut v = Vec::with_capacity(4);
    v.push(Geometry::Point(Point(c[0])));
    v.push(Geometry::LineString(ls_of(&c[1..3])));
    v.push(Geometry::GeometryCollection(GeometryCollection(inner)));
    v.push(Geometry::GeometryCollection(GeometryCollection(Vec::new())));
    let gc = GeometryCollection(v);
    check_traversal(&gc, &c, &c);
    check_traversal(&GeometryCollection::<i32>(Vec::new()), &[], &[]);
    // the Geometry enum delegates
    check_traversal(&Geometry::LineString(ls_of(&c[..3])), &c[..3], &c[..3]);
}


// ---- minimal single-purpose harnesses (iterator-adaptor chains are slow to execute symbolically: each harness
//      below exercises ONE traversal on ONE small concrete-shaped geometry) ------------------------------------
#[cfg(kani)]
#[kani::proof]
#[kani::unwind(10)]
fn c19_k_min_gc_bounding_rect_empty_member() {
    let (a, b) = (lat_coord_i32(100), lat_coord_i32(100));
    let mut v = Vec::with_capacity(3);
    v.push(Geometry::Point(Point(a)));
    v.push(Geometry::MultiPoint(MultiPoint(Vec::new())));
    v.push(Geometry::Point(Point(b)));
    let r = GeometryCollection(v).bounding_rect();
    match r {
        None => assert!(false),
        Some(r) => {
            assert!(r.min().x == if a.x < b.x { a.x } else { b.x } && r.max().x == if a.x < b.x { b.x } else { a.x });
            assert!(r.min().y == if a.y < b.y { a.y } else { b.y } && r.max().y == if a.y < b.y { b.y } else { a.y });
        }
    }
    let mut v = Vec::with_capacity(2);
    v.push(Geometry::Point(Point(a)));
    v.push(Geometry::MultiPoint(MultiPoint(Vec::new())));
    let r = GeometryCollection(v).bounding_rect();
    assert!(matches!(r, Some(r) if r.min() == a && r.max() == a));
    assert!(GeometryCollection::<i32>(Vec::new()).bounding_rect().is_none());
}

#[cfg(kani)]
fn tri_poly_with_hole() -> (Polygon<i32>, [Coord<i32>; 8]) {
    // (vec![..] literals: constant-folded by CBMC)
    let c = |x: i32, y: i32| Coord { x, y };
    let p = Polygon::new(LineString(vec![c(1, 100), c(8, 97), c(15, 94)]), vec![LineString(vec![c(22, 91), c(29, 88), c(36, 85)])]);
    (p, [c(1, 100), c(8, 97), c(15, 94), c(1, 100), c(22, 91), c(29, 88), c(36, 85), c(22, 91)])
}

/// a fallible map failing at traversal position k (concrete): the error is propagated, never swallowed
#[cfg(kani)]
fn body_polygon_try_map(k: usize) {
    let (p, _) = tri_poly_with_hole();
    let count = core::cell::Cell::new(0usize);
    let r = p.try_map_coords(|c| { let i = count.get(); count.set(i + 1); if i == k { Err(i) } else { Ok(c) } });
    // 8 coordinates: failing at any of them is an error, otherwise the same polygon
    match r { Ok(q) => assert!(k >= 8 && q.interiors().len() == 1 && q.interiors()[0].0.len() == 4), Err(e) => assert!(e == k && k < 8) }
}
#[cfg(kani)] #[kani::proof] #[kani::unwind(10)]
fn c19_k_min_polygon_try_map_error_in_hole() { body_polygon_try_map(5); }
#[cfg(kani)] #[kani::proof] #[kani::unwind(10)]
fn c19_k_min_polygon_try_map_error_in_shell() { body_polygon_try_map(2); }
#[cfg(kani)] #[kani::proof] #[kani::unwind(10)]
fn c19_k_min_polygon_try_map_ok() { body_polygon_try_map(99); }

#[cfg(kani)]
#[kani::proof]
#[kani::unwind(10)]
fn c19_k_min_polygon_counts() {
    let (p, want) = tri_poly_with_hole();
    assert!(p.coords_count() == 8);
    let mut n = 0;
    for c in p.coords_iter() { assert!(n < 8 && c == want[n]); n += 1; }
    assert!(n == 8);
    let mut m = 0;
    for c in p.exterior_coords_iter() { assert!(m < 4 && c == want[m]); m += 1; }
    assert!(m == 4);
}

#[cfg(kani)]
#[kani::proof]
#[kani::unwind(10)]
fn c19_k_min_gc_exterior_skips_holes() {
    let (p, want) = tri_poly_with_hole();
    let mut gv = Vec::with_capacity(1);
    gv.push(Geometry::Polygon(p));
    let gc = GeometryCollection(gv);
    let mut m = 0;
    for c in gc.exterior_coords_iter() { assert!(m < 4 && c == want[m]); m += 1; }
    assert!(m == 4);
    assert!(gc.coords_count() == 8);
}

#[cfg(kani)]
#[kani::proof]
#[kani::unwind(10)]
fn c19_k_min_polygon_map() {
    let (p, want) = tri_poly_with_hole();
    let f = |c: Coord<i32>| Coord { x: c.y + 1, y: c.x * -3 };
    let q = p.map_coords(f);
    assert!(q.interiors().len() == 1 && q.exterior().0.len() == 4 && q.interiors()[0].0.len() == 4);
    let mut i = 0;
    while i < 4 { assert!(q.exterior().0[i] == f(want[i]) && q.interiors()[0].0[i] == f(want[4 + i])); i += 1; }
    let mut r = p.clone();
    r.map_coords_in_place(f);
    let mut i = 0;
    while i < 4 { assert!(r.exterior().0[i] == f(want[i]) && r.interiors()[0].0[i] == f(want[4 + i])); i += 1; }
}


// (GeometryCollection::bounding_rect cannot be checked modularly with Kani 0.68 either: stubbing the members' trait method
//  is rejected -- "does not currently support stubs or function contracts on generic functions in traits"; it is under a
//  Verus contract instead: unit c19_gc)
