// ======================================================================================
// spec.rs -- executable point-set semantics on exact integer coordinates (the oracle).
// Same definitions as contracts/verus/prelude_geo.rs / c02_ring.rs, over i64.
// Inputs are lattice points with |c| <= 2^14, so every expression below is exact in i16 for |c| <= 64 (the SAME width as the code under test instantiated at i16: the SAT instance then shares the multipliers).
// ======================================================================================
pub(crate) mod spec {
    pub type S = i16;
    #[derive(Clone, Copy, PartialEq, Eq, Debug)]
    pub struct P { pub x: S, pub y: S }

    #[derive(Clone, Copy, PartialEq, Eq, Debug)]
    pub enum Pos { Inside, OnBoundary, Outside }

    pub fn cross(p: P, q: P, r: P) -> S {
        (q.x - p.x) * (r.y - q.y) - (q.y - p.y) * (r.x - q.x)
    }
    /// +1 counter-clockwise, -1 clockwise, 0 collinear
    pub fn orient(p: P, q: P, r: P) -> i8 {
        let c = cross(p, q, r);
        if c > 0 { 1 } else if c < 0 { -1 } else { 0 }
    }
    pub fn between(v: S, a: S, b: S) -> bool { (a <= v && v <= b) || (b <= v && v <= a) }
    pub fn on_segment(p: P, a: P, b: P) -> bool {
        cross(a, b, p) == 0 && between(p.x, a.x, b.x) && between(p.y, a.y, b.y)
    }
    /// closed segments [a,b] and [c,d] share at least one point (textbook orientation test)
    pub fn seg_meet(a: P, b: P, c: P, d: P) -> bool {
        let o1 = orient(a, b, c); let o2 = orient(a, b, d);
        let o3 = orient(c, d, a); let o4 = orient(c, d, b);
        if o1 != o2 && o3 != o4 { return true; }
        on_segment(c, a, b) || on_segment(d, a, b) || on_segment(a, c, d) || on_segment(b, c, d)
    }
    /// p is an interior point of the closed segment (relative interior; a == b has none)
    pub fn in_segment_interior(p: P, a: P, b: P) -> bool { on_segment(p, a, b) && p != a && p != b }

    pub fn rect_pos(p: P, mn: P, mx: P) -> Pos {
        if p.x < mn.x || p.x > mx.x || p.y < mn.y || p.y > mx.y { Pos::Outside }
        else if p.x == mn.x || p.x == mx.x || p.y == mn.y || p.y == mx.y { Pos::OnBoundary }
        else { Pos::Inside }
    }
    /// triangle (a,b,c), any winding, possibly degenerate
    pub fn tri_pos(p: P, a: P, b: P, c: P) -> Pos {
        let (o1, o2, o3) = (orient(a, b, p), orient(b, c, p), orient(c, a, p));
        if o1 == o2 && o2 == o3 && o1 != 0 { return Pos::Inside; }
        if on_segment(p, a, b) || on_segment(p, b, c) || on_segment(p, c, a) { Pos::OnBoundary } else { Pos::Outside }
    }
    pub fn crossing(p: P, a: P, b: P) -> i32 {
        if a.y <= p.y && p.y < b.y && cross(a, b, p) > 0 { 1 }
        else if b.y <= p.y && p.y < a.y && cross(a, b, p) < 0 { -1 }
        else { 0 }
    }
    /// position relative to a closed ring (winding number, boundary first)
    pub fn ring_pos(p: P, ring: &[P]) -> Pos {
        if ring.is_empty() { return Pos::Outside; }
        if ring.len() == 1 { return if p == ring[0] { Pos::OnBoundary } else { Pos::Outside }; }
        let mut wn = 0;
        let mut on = false;
        let mut i = 0;
        while i + 1 < ring.len() {
            if on_segment(p, ring[i], ring[i + 1]) { on = true; }
            wn += crossing(p, ring[i], ring[i + 1]);
            i += 1;
        }
        if on { Pos::OnBoundary } else if wn != 0 { Pos::Inside } else { Pos::Outside }
    }
    /// a line string as a point set with the OGC boundary (its two end points unless closed)
    pub fn linestring_pos(p: P, ls: &[P]) -> Pos {
        if ls.len() < 2 { return Pos::Outside; }
        let mut on = false;
        let mut i = 0;
        while i + 1 < ls.len() {
            if on_segment(p, ls[i], ls[i + 1]) { on = true; }
            i += 1;
        }
        if !on { return Pos::Outside; }
        let closed = ls[0] == ls[ls.len() - 1];
        if !closed && (p == ls[0] || p == ls[ls.len() - 1]) { Pos::OnBoundary } else { Pos::Inside }
    }
}
