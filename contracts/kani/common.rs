// Shared helpers for Kani harnesses (included into both crates' `verif` modules).
// Symbolic builders: every container has a symbolic length up to the stated bound.

#[cfg(kani)]
pub(crate) fn any_coord_i32() -> Coord<i32> {
    Coord { x: kani::any(), y: kani::any() }
}

/// coordinates on the lattice |c| <= k
#[cfg(kani)]
pub(crate) fn lat_coord_i32(k: i32) -> Coord<i32> {
    let x: i32 = kani::any();
    let y: i32 = kani::any();
    kani::assume(-k <= x && x <= k && -k <= y && y <= k);
    Coord { x, y }
}

/// i16 lattice: 16-bit multipliers keep the SAT instances of orientation-based code small
#[cfg(kani)]
pub(crate) fn lat_coord_i16(k: i16) -> Coord<i16> {
    let x: i16 = kani::any();
    let y: i16 = kani::any();
    kani::assume(-k <= x && x <= k && -k <= y && y <= k);
    Coord { x, y }
}

#[cfg(kani)]
pub(crate) fn lat_ring_i16(n: usize, k: i16) -> LineString<i16> {
    let mut v = Vec::with_capacity(8);
    let mut i = 0;
    while i < n {
        v.push(lat_coord_i16(k));
        i += 1;
    }
    LineString(v)
}

#[cfg(kani)]
pub(crate) fn lat_coord_i64(k: i64) -> Coord<i64> {
    let x: i64 = kani::any();
    let y: i64 = kani::any();
    kani::assume(-k <= x && x <= k && -k <= y && y <= k);
    Coord { x, y }
}

/// integer-valued f64 coordinates with |c| <= k (every product of two differences is exact for k <= 2^25)
#[cfg(kani)]
pub(crate) fn lat_coord_f64(k: i32) -> Coord<f64> {
    let c = lat_coord_i32(k);
    Coord { x: c.x as f64, y: c.y as f64 }
}

/// line string of CONCRETE length n over symbolic i32 coordinates, allocated with spare
/// capacity so that pushes by the code under test never reallocate (CBMC handles symbolic
/// sizes and realloc badly: measured 3 s vs > 300 s).  Harnesses enumerate n in a concrete loop.
#[cfg(kani)]
pub(crate) fn ring_i32(n: usize) -> LineString<i32> {
    let mut v = Vec::with_capacity(8);
    let mut i = 0;
    while i < n {
        v.push(any_coord_i32());
        i += 1;
    }
    LineString(v)
}

#[cfg(kani)]
pub(crate) fn lat_ring_i32(n: usize, k: i32) -> LineString<i32> {
    let mut v = Vec::with_capacity(8);
    let mut i = 0;
    while i < n {
        v.push(lat_coord_i32(k));
        i += 1;
    }
    LineString(v)
}

#[cfg(kani)]
pub(crate) fn lat_ring_f64(n: usize, k: i32) -> LineString<f64> {
    let mut v = Vec::with_capacity(8);
    let mut i = 0;
    while i < n {
        v.push(lat_coord_f64(k));
        i += 1;
    }
    LineString(v)
}

pub(crate) fn ring_closed<T: CoordNum>(ls: &LineString<T>) -> bool {
    ls.0.is_empty() || ls.0[0] == ls.0[ls.0.len() - 1]
}

/// model of the libm function behind `f64::hypot` (a foreign C function Kani cannot execute): sqrt of the sum
/// of squares.  ASSUMPTION where used: hypot(a, b) == sqrt(a*a + b*b) (exact on the 3-4-5 style inputs used).
#[cfg(kani)]
pub(crate) fn hypot_model(a: f64, b: f64) -> f64 {
    // exact (and constant-foldable / sqrt-free) on axis-parallel arguments
    if b == 0.0 { a.abs() } else if a == 0.0 { b.abs() } else { (a * a + b * b).sqrt() }
}
