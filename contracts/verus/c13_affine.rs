// Unit c13_affine: AffineTransform obeys matrix algebra (property C13), exact scalar.
//@include prelude_exact.rs
verus! {

//@type geo-types/src/geometry/coord.rs | Coord
//@type geo/src/algorithm/affine_ops.rs | AffineTransform

/// view: the 2x3 integer matrix [[a, b, xoff], [d, e, yoff]] plus the invariant last row
pub struct M { pub a: int, pub b: int, pub xoff: int, pub d: int, pub e: int, pub yoff: int }
pub struct V2 { pub x: int, pub y: int }

pub closed spec fn mview<T: CoordNum>(t: AffineTransform<T>) -> M {
    M { a: t.0[0][0].val(), b: t.0[0][1].val(), xoff: t.0[0][2].val(), d: t.0[1][0].val(), e: t.0[1][1].val(), yoff: t.0[1][2].val() }
}
/// last row is [0, 0, 1]
pub closed spec fn wf<T: CoordNum>(t: AffineTransform<T>) -> bool {
    t.0[2][0].val() == 0 && t.0[2][1].val() == 0 && t.0[2][2].val() == 1
}
pub open spec fn cv<T: CoordNum>(c: Coord<T>) -> V2 { V2 { x: c.x.val(), y: c.y.val() } }

pub open spec fn m_apply(m: M, c: V2) -> V2 {
    V2 { x: m.a * c.x + m.b * c.y + m.xoff, y: m.d * c.x + m.e * c.y + m.yoff }
}
/// matrix of "first m, then n"  ( = N * M )
pub open spec fn m_then(m: M, n: M) -> M {
    M { a: n.a * m.a + n.b * m.d, b: n.a * m.b + n.b * m.e, xoff: n.a * m.xoff + n.b * m.yoff + n.xoff,
        d: n.d * m.a + n.e * m.d, e: n.d * m.b + n.e * m.e, yoff: n.d * m.xoff + n.e * m.yoff + n.yoff }
}
pub open spec fn m_id() -> M { M { a: 1, b: 0, xoff: 0, d: 0, e: 1, yoff: 0 } }

/// one row of the compose/apply law (degree-3 identity, staged in degree-2 distributivity steps)
pub proof fn lemma_row(ma: int, mb: int, mx: int, md: int, me: int, my: int, na: int, nb: int, nx: int, cx: int, cy: int)
    ensures (na * ma + nb * md) * cx + (na * mb + nb * me) * cy + (na * mx + nb * my + nx)
         == na * (ma * cx + mb * cy + mx) + nb * (md * cx + me * cy + my) + nx
{
    assert((na * ma + nb * md) * cx == na * (ma * cx) + nb * (md * cx)) by (nonlinear_arith);
    assert((na * mb + nb * me) * cy == na * (mb * cy) + nb * (me * cy)) by (nonlinear_arith);
    assert(na * (ma * cx + mb * cy + mx) == na * (ma * cx) + na * (mb * cy) + na * mx) by (nonlinear_arith);
    assert(nb * (md * cx + me * cy + my) == nb * (md * cx) + nb * (me * cy) + nb * my) by (nonlinear_arith);
}
/// C13 clause 1: applying compose(a, b) equals applying a then b
pub proof fn lemma_compose_apply(m: M, n: M, c: V2)
    ensures m_apply(m_then(m, n), c) == m_apply(n, m_apply(m, c))
{
    lemma_row(m.a, m.b, m.xoff, m.d, m.e, m.yoff, n.a, n.b, n.xoff, c.x, c.y);
    lemma_row(m.a, m.b, m.xoff, m.d, m.e, m.yoff, n.d, n.e, n.yoff, c.x, c.y);
}
pub proof fn lemma_mul01(x: int, y: int)
    ensures x == 0 ==> x * y == 0 && y * x == 0, x == 1 ==> x * y == y && y * x == y,
{
    assert(x == 0 ==> x * y == 0 && y * x == 0) by (nonlinear_arith);
    assert(x == 1 ==> x * y == y && y * x == y) by (nonlinear_arith);
}
pub proof fn lemma_identity_laws(m: M, c: V2)
    ensures m_apply(m_id(), c) == c, m_then(m, m_id()) == m, m_then(m_id(), m) == m
{
}

impl<T: CoordNum> Coord<T> {
//@fn geo-types/src/geometry/coord.rs | impl<T: CoordNum> Coord<T> | x_y | id=C13.V.coord_x_y
//@ret r
//@spec
    ensures r.0 == self.x, r.1 == self.y,
//@end
}

impl<T: CoordNum> AffineTransform<T> {
//@fn geo/src/algorithm/affine_ops.rs | impl<T: CoordNum> AffineTransform<T> | new | id=C13.V.new
//@ret r
//@spec
    ensures wf(r), mview(r) == (M { a: a.val(), b: b.val(), xoff: xoff.val(), d: d.val(), e: e.val(), yoff: yoff.val() }),
//@end

//@fn geo/src/algorithm/affine_ops.rs | impl<T: CoordNum> AffineTransform<T> | identity | id=C13.V.identity
//@ret r
//@spec
    ensures wf(r), mview(r) == m_id(),
//@end

//@fn geo/src/algorithm/affine_ops.rs | impl<T: CoordNum> AffineTransform<T> | apply | id=C13.V.apply
//@ret r
//@spec
    ensures cv(r) == m_apply(mview(*self), cv(coord)),
//@entry
        proof { T::ax_obeys(); T::ax_ring(); }
//@end

//@fn geo/src/algorithm/affine_ops.rs | impl<T: CoordNum> AffineTransform<T> | compose | id=C13.V.compose
//@ret r
//@spec
    requires wf(*self), wf(*other),
    ensures wf(r), mview(r) == m_then(mview(*self), mview(*other)),
//@entry
        proof {
            T::ax_obeys(); T::ax_ring();
            // last row of both operands is [0, 0, 1]
            lemma_mul01(other.0[2][0].val(), self.0[0][0].val()); lemma_mul01(other.0[2][1].val(), self.0[1][0].val()); lemma_mul01(other.0[2][2].val(), self.0[2][0].val());
            lemma_mul01(other.0[2][0].val(), self.0[0][1].val()); lemma_mul01(other.0[2][1].val(), self.0[1][1].val()); lemma_mul01(other.0[2][2].val(), self.0[2][1].val());
            lemma_mul01(other.0[2][0].val(), self.0[0][2].val()); lemma_mul01(other.0[2][1].val(), self.0[1][2].val()); lemma_mul01(other.0[2][2].val(), self.0[2][2].val());
            lemma_mul01(self.0[2][0].val(), other.0[0][2].val()); lemma_mul01(self.0[2][1].val(), other.0[0][2].val()); lemma_mul01(self.0[2][2].val(), other.0[0][2].val());
            lemma_mul01(self.0[2][0].val(), other.0[1][2].val()); lemma_mul01(self.0[2][1].val(), other.0[1][2].val()); lemma_mul01(self.0[2][2].val(), other.0[1][2].val());
        }
//@end

//@fn geo/src/algorithm/affine_ops.rs | impl<T: CoordNum> AffineTransform<T> | translate | id=C13.V.translate
//@ret r
//@spec
    ensures wf(r), mview(r) == (M { a: 1, b: 0, xoff: xoff.val(), d: 0, e: 1, yoff: yoff.val() }),
//@end

// `translated` / `scaled` take `mut self`, which Verus does not support: K harness c13_k_chain covers them (bounded)

//@fn geo/src/algorithm/affine_ops.rs | impl<T: CoordNum> AffineTransform<T> | scale | id=C13.V.scale
//@ret r
//@spec
    ensures
        wf(r),
        // the documented matrix about the (converted) origin, whose defining property is that the origin is a fixed point
        mview(r).a == xfact.val() && mview(r).b == 0 && mview(r).d == 0 && mview(r).e == yfact.val(),
        exists|o: Coord<T>| #[trigger] call_ensures(core::convert::Into::<Coord<T>>::into, (origin,), o) && m_apply(mview(r), cv(o)) == cv(o),
//@entry
        proof { T::ax_obeys(); T::ax_ring(); }
//@end

//@fn geo/src/algorithm/affine_ops.rs | impl<T: CoordNum> AffineTransform<T> | a | id=C13.V.acc_a
//@ret r
//@spec
    ensures r.val() == mview(*self).a,
//@end
//@fn geo/src/algorithm/affine_ops.rs | impl<T: CoordNum> AffineTransform<T> | b | id=C13.V.acc_b
//@ret r
//@spec
    ensures r.val() == mview(*self).b,
//@end
//@fn geo/src/algorithm/affine_ops.rs | impl<T: CoordNum> AffineTransform<T> | xoff | id=C13.V.acc_xoff
//@ret r
//@spec
    ensures r.val() == mview(*self).xoff,
//@end
//@fn geo/src/algorithm/affine_ops.rs | impl<T: CoordNum> AffineTransform<T> | d | id=C13.V.acc_d
//@ret r
//@spec
    ensures r.val() == mview(*self).d,
//@end
//@fn geo/src/algorithm/affine_ops.rs | impl<T: CoordNum> AffineTransform<T> | e | id=C13.V.acc_e
//@ret r
//@spec
    ensures r.val() == mview(*self).e,
//@end
//@fn geo/src/algorithm/affine_ops.rs | impl<T: CoordNum> AffineTransform<T> | yoff | id=C13.V.acc_yoff
//@ret r
//@spec
    ensures r.val() == mview(*self).yoff,
//@end
}

// vstd attaches `obeys_from_spec() ==> r == from_spec(x)` to every `From::from`; not used here (see c18_geo_types)
impl<T: CoordNum> vstd::std_specs::convert::FromSpecImpl<[T; 6]> for AffineTransform<T> {
    open spec fn obeys_from_spec() -> bool { false }
    uninterp spec fn from_spec(v: [T; 6]) -> Self;
}
impl<T: CoordNum> From<[T; 6]> for AffineTransform<T> {
//@fn geo/src/algorithm/affine_ops.rs | impl<T: CoordNum> From<[T; 6]> for AffineTransform<T> | from | id=C13.V.from_array
//@ret r
//@spec
    ensures wf(r), mview(r) == (M { a: arr@[0].val(), b: arr@[1].val(), xoff: arr@[2].val(), d: arr@[3].val(), e: arr@[4].val(), yoff: arr@[5].val() }),
//@end
}
impl<T: CoordNum> vstd::std_specs::convert::FromSpecImpl<(T, T, T, T, T, T)> for AffineTransform<T> {
    open spec fn obeys_from_spec() -> bool { false }
    uninterp spec fn from_spec(v: (T, T, T, T, T, T)) -> Self;
}
impl<T: CoordNum> From<(T, T, T, T, T, T)> for AffineTransform<T> {
//@fn geo/src/algorithm/affine_ops.rs | impl<T: CoordNum> From<(T, T, T, T, T, T)> for AffineTransform<T> | from | id=C13.V.from_tuple
//@ret r
//@spec
    ensures wf(r), mview(r) == (M { a: tup.0.val(), b: tup.1.val(), xoff: tup.2.val(), d: tup.3.val(), e: tup.4.val(), yoff: tup.5.val() }),
//@end
}

impl<U: CoordFloat> AffineTransform<U> {
//@fn geo/src/algorithm/affine_ops.rs | impl<U: CoordFloat> AffineTransform<U> | rotate | id=C13.V.rotate
//@ret r
//@spec
    ensures
        wf(r),
        // rotation-shaped matrix [[c, -s], [s, c]] for WHATEVER (s, c) sin_cos returned, with the origin as a fixed point
        mview(r).a == mview(r).e && mview(r).b == -mview(r).d,
        exists|o: Coord<U>| #[trigger] call_ensures(core::convert::Into::<Coord<U>>::into, (origin,), o) && m_apply(mview(r), cv(o)) == cv(o),
//@entry
        proof {
            U::ax_obeys(); U::ax_ring(); U::ax_neg();
            // sign and order of integer products (anchor-free: stated for all operands)
            assert forall|a: int, b: int| #[trigger] ((-a) * b) == -(a * b) by { assert((-a) * b == -(a * b)) by (nonlinear_arith); }
            assert forall|a: int, b: int| #[trigger] (a * b) == b * a by { assert(a * b == b * a) by (nonlinear_arith); }
        }
//@end
//@fn geo/src/algorithm/affine_ops.rs | impl<U: CoordFloat> AffineTransform<U> | skew | id=C13.V.skew
//@ret r
//@spec
    ensures
        wf(r),
        // shear-shaped matrix [[1, tx], [ty, 1]] for WHATEVER values tan returned (also after the zero threshold),
        // with the origin as a fixed point
        mview(r).a == 1 && mview(r).e == 1,
        exists|o: Coord<U>| #[trigger] call_ensures(core::convert::Into::<Coord<U>>::into, (origin,), o) && m_apply(mview(r), cv(o)) == cv(o),
//@entry
        proof {
            U::ax_obeys(); U::ax_order(); U::ax_ring(); U::ax_neg();
            assert forall|a: int, b: int| #[trigger] ((-a) * b) == -(a * b) by { assert((-a) * b == -(a * b)) by (nonlinear_arith); }
            assert forall|a: int, b: int| #[trigger] (a * b) == b * a by { assert(a * b == b * a) by (nonlinear_arith); }
            assert forall|a: int| #[trigger] (1 * a) == a by { assert(1 * a == a) by (nonlinear_arith); }
        }
//@end
}

} // verus!
fn main() {}
