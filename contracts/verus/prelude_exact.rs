// ======================================================================================
// prelude_exact.rs -- the scalar as an exact commutative ring (DESIGN §3, S1 "exact" mode).
// ASSUMPTION (listed in evidence): machine arithmetic is treated as mathematical -- `+ - *`
// and negation of the scalar compute the exact integer result of `val` (no overflow for the
// integer types, no rounding for floats: true on the exactly-representable lattice).
// Division is NOT axiomatised.
// ======================================================================================
use vstd::prelude::*;
use vstd::std_specs::cmp::PartialEqSpec;
use vstd::std_specs::cmp::PartialOrdSpec;
use vstd::std_specs::ops::*;
use core::cmp::Ordering;

verus! {

pub open spec fn int_cmp(a: int, b: int) -> Ordering {
    if a < b { Ordering::Less } else if a == b { Ordering::Equal } else { Ordering::Greater }
}

pub trait CoordNum: Copy + PartialEq + PartialOrd
    + core::ops::Add<Output = Self> + core::ops::Sub<Output = Self> + core::ops::Mul<Output = Self> + core::ops::Div<Output = Self>
{
    spec fn val(self) -> int;

    // num_traits::Zero / One
    fn zero() -> (r: Self) ensures r.val() == 0;
    fn one() -> (r: Self) ensures r.val() == 1;

    proof fn ax_obeys()
        ensures
            Self::obeys_eq_spec(), Self::obeys_partial_cmp_spec(),
            Self::obeys_add_spec(), Self::obeys_sub_spec(), Self::obeys_mul_spec(),
            // `==` on core::cmp::Ordering values is equality of the variants (std's derived PartialEq; ASSUMED)
            <Ordering as PartialEqSpec>::obeys_eq_spec(),
            forall|a: Ordering, b: Ordering| #![trigger a.eq_spec(&b)] a.eq_spec(&b) == (a == b),
    ;
    proof fn ax_cmp(a: Self, b: Self)
        ensures
            a.eq_spec(&b) == (a.val() == b.val()),
            a.partial_cmp_spec(&b) == Some(int_cmp(a.val(), b.val())),
    ;
    /// quantified form of ax_cmp (instantiated by the comparison terms of the verification condition)
    proof fn ax_order()
        ensures
            forall|a: Self, b: Self| #![trigger a.partial_cmp_spec(&b)] a.partial_cmp_spec(&b) == Some(int_cmp(a.val(), b.val())),
            forall|a: Self, b: Self| #![trigger a.eq_spec(&b)] a.eq_spec(&b) == (a.val() == b.val()),
    ;
    /// exact ring operations (quantified: instantiated by the operator terms of the verification condition)
    proof fn ax_ring()
        ensures
            forall|a: Self, b: Self| #![trigger a.add_spec(b)] #![trigger a.add_req(b)] a.add_req(b) && a.add_spec(b).val() == a.val() + b.val(),
            forall|a: Self, b: Self| #![trigger a.sub_spec(b)] #![trigger a.sub_req(b)] a.sub_req(b) && a.sub_spec(b).val() == a.val() - b.val(),
            forall|a: Self, b: Self| #![trigger a.mul_spec(b)] #![trigger a.mul_req(b)] a.mul_req(b) && a.mul_spec(b).val() == a.val() * b.val()
                && a.mul_spec(b).val() == b.val() * a.val(),   // (commutativity of the integer product, stated so that the order of the factors in the code does not matter)
    ;
}

/// sqrt(a^2 + b^2): abstract
pub uninterp spec fn m_hyp(a: int, b: int) -> int;

/// geo_types::CoordFloat fragment: negation is exact; the trigonometric functions are UNINTERPRETED
/// (nothing is assumed about the values they return)
pub trait CoordFloat: CoordNum + core::ops::Neg<Output = Self> {
    // num_traits::Float::{max, min, abs} on finite, non-NaN values
    fn max(self, other: Self) -> (r: Self) ensures r.val() == (if self.val() >= other.val() { self.val() } else { other.val() });
    fn min(self, other: Self) -> (r: Self) ensures r.val() == (if self.val() <= other.val() { self.val() } else { other.val() });
    fn abs(self) -> (r: Self) ensures r.val() == (if self.val() >= 0 { self.val() } else { -self.val() });
    /// num_traits::NumCast::from (ASSUMED: converting a literal into a float scalar succeeds; its value is not used)
    fn from<N>(n: N) -> (r: Option<Self>) ensures r is Some;
    /// f64::hypot: abstract (a function of its arguments)
    fn hypot(self, other: Self) -> (r: Self) ensures r.val() == m_hyp(self.val(), other.val());
    /// scalar division (ASSUMED, "machine arithmetic treated as mathematical"): never panics for floats; of the quotient
    /// only its position relative to 0 and 1 is assumed, for a positive divisor: a/b < 0 iff a < 0, a/b <= 0 iff a <= 0,
    /// a/b > 1 iff a > b, a/b >= 1 iff a >= b
    proof fn ax_div()
        ensures
            Self::obeys_div_spec(),
            forall|a: Self, b: Self| #![trigger a.div_req(b)] a.div_req(b),
            forall|a: Self, b: Self| #![trigger a.div_spec(b)] b.val() > 0 ==>
                ((a.div_spec(b).val() < 0) == (a.val() < 0)) && ((a.div_spec(b).val() <= 0) == (a.val() <= 0))
                && ((a.div_spec(b).val() > 1) == (a.val() > b.val())) && ((a.div_spec(b).val() >= 1) == (a.val() >= b.val()));
    fn to_radians(self) -> Self;
    fn sin_cos(self) -> (Self, Self);
    fn tan(self) -> Self;
    proof fn ax_neg()
        ensures
            Self::obeys_neg_spec(),
            forall|a: Self| #![trigger a.neg_spec()] #![trigger a.neg_req()] a.neg_req() && a.neg_spec().val() == -a.val(),
    ;
}

} // verus!
