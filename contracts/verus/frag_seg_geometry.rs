// frag_seg_geometry.rs -- plane geometry of two segments over exact integer points (needs prelude_geo.rs: P2, cross,
// between, on_segment, orient_spec).  Everything here is PROVED (no axioms): the lemmas carry the unbounded proofs of
// units c11_classify and c02_intersects.
verus! {
pub open spec fn imin(a: int, b: int) -> int { if a <= b { a } else { b } }
pub open spec fn imax(a: int, b: int) -> int { if a >= b { a } else { b } }
pub open spec fn in_box(p: P2, a: P2, b: P2) -> bool { between(p.x, a.x, b.x) && between(p.y, a.y, b.y) }
// ------------------------------------------------------------------ geometry
proof fn lemma_ratio(u: int, v: int, f: int, dd: int)
    requires u * dd == v * f, (0 <= f <= dd && dd > 0) || (dd <= f <= 0 && dd < 0)
    ensures (0 <= u <= v) || (v <= u <= 0)
{
    if dd > 0 {
        if v >= 0 {
            assert(0 <= v * f <= v * dd) by (nonlinear_arith) requires 0 <= f <= dd, v >= 0;
            assert(u >= 0) by (nonlinear_arith) requires u * dd >= 0, dd > 0;
            assert(u <= v) by (nonlinear_arith) requires u * dd <= v * dd, dd > 0;
        } else {
            assert(v * dd <= v * f <= 0) by (nonlinear_arith) requires 0 <= f <= dd, v < 0;
            assert(u <= 0) by (nonlinear_arith) requires u * dd <= 0, dd > 0;
            assert(u >= v) by (nonlinear_arith) requires u * dd >= v * dd, dd > 0;
        }
    } else {
        if v >= 0 {
            assert(v * dd <= v * f <= 0) by (nonlinear_arith) requires dd <= f <= 0, v >= 0;
            assert(u >= 0) by (nonlinear_arith) requires u * dd <= 0, dd < 0;
            assert(u <= v) by (nonlinear_arith) requires u * dd >= v * dd, dd < 0;
        } else {
            assert(0 <= v * f <= v * dd) by (nonlinear_arith) requires dd <= f <= 0, v < 0;
            assert(u <= 0) by (nonlinear_arith) requires u * dd >= 0, dd < 0;
            assert(u >= v) by (nonlinear_arith) requires u * dd <= v * dd, dd < 0;
        }
    }
}
/// cross(c, d, p) written with the offsets of p from c:  Q (c.x - p.x) - P (c.y - p.y),  P = d.x - c.x, Q = d.y - c.y
proof fn lemma_cross_offsets(c: P2, d: P2, p: P2)
    ensures cross(c, d, p) == (d.y - c.y) * (c.x - p.x) - (d.x - c.x) * (c.y - p.y)
{
    assert(cross(c, d, p) == (d.y - c.y) * (c.x - p.x) - (d.x - c.x) * (c.y - p.y)) by (nonlinear_arith)
        requires cross(c, d, p) == (d.x - c.x) * (p.y - d.y) - (d.y - c.y) * (p.x - d.x);
}
/// u (Q v - P w) - v (Q u - P s) == P (v s - u w)   (degree 3: staged through named degree-2 products)
proof fn lemma_degree3(u: int, v: int, w: int, s: int, p: int, q: int)
    ensures u * (q * v - p * w) - v * (q * u - p * s) == p * (v * s - u * w)
{
    let qv = q * v; let pw = p * w; let qu = q * u; let ps = p * s; let vs = v * s; let uw = u * w;
    assert(u * (qv - pw) == u * qv - u * pw) by (nonlinear_arith);
    assert(v * (qu - ps) == v * qu - v * ps) by (nonlinear_arith);
    assert(p * (vs - uw) == p * vs - p * uw) by (nonlinear_arith);
    assert(u * qv == v * qu) by (nonlinear_arith) requires qv == q * v, qu == q * u;
    assert(u * pw == p * uw) by (nonlinear_arith) requires pw == p * w, uw == u * w;
    assert(v * ps == p * vs) by (nonlinear_arith) requires ps == p * s, vs == v * s;
}
/// c on the carrier line of ab, and a, b on opposite (closed) sides of the line cd, not both on it: c is ON segment ab
pub proof fn lemma_crossing_point_on_segment(a: P2, b: P2, c: P2, d: P2)
    requires
        cross(a, b, c) == 0,
        (cross(c, d, a) <= 0 <= cross(c, d, b)) || (cross(c, d, b) <= 0 <= cross(c, d, a)),
        cross(c, d, a) != cross(c, d, b),
    ensures on_segment(c, a, b)
{
    let fa = cross(c, d, a);
    let fb = cross(c, d, b);
    let (u, s) = (c.x - a.x, c.y - a.y);
    let (v, w) = (b.x - a.x, b.y - a.y);
    let (p, q) = (d.x - c.x, d.y - c.y);
    lemma_cross_offsets(c, d, a);
    lemma_cross_offsets(c, d, b);
    assert(fa == q * u - p * s);
    assert(fb == q * (u - v) - p * (s - w));
    assert(fa - fb == q * v - p * w) by (nonlinear_arith) requires fa == q * u - p * s, fb == q * (u - v) - p * (s - w);
    assert(cross(a, b, c) == v * s - u * w) by (nonlinear_arith)
        requires cross(a, b, c) == v * ((s - w)) - w * ((u - v));
    lemma_degree3(u, v, w, s, p, q);
    assert(p * (v * s - u * w) == 0) by (nonlinear_arith) requires v * s - u * w == 0;
    assert(u * (fa - fb) == v * fa);
    lemma_degree3(s, w, v, u, q, p);
    assert(q * (w * u - s * v) == 0) by (nonlinear_arith) requires v * s - u * w == 0;
    assert(s * (p * w - q * v) == w * (p * s - q * u));
    assert(s * (fa - fb) == w * fa) by (nonlinear_arith) requires s * (p * w - q * v) == w * (p * s - q * u), fa - fb == q * v - p * w, fa == q * u - p * s;
    lemma_ratio(u, v, fa, fa - fb);
    lemma_ratio(s, w, fa, fa - fb);
}

/// cross(a,b,d) - cross(a,b,c) == cross(c,d,a) - cross(c,d,b)   and   cross(d,c,p) == -cross(c,d,p)
pub proof fn lemma_four_crosses(a: P2, b: P2, c: P2, d: P2)
    ensures
        cross(a, b, d) - cross(a, b, c) == cross(c, d, a) - cross(c, d, b),
        cross(d, c, a) == -cross(c, d, a), cross(d, c, b) == -cross(c, d, b),
        cross(b, a, c) == -cross(a, b, c), cross(b, a, d) == -cross(a, b, d),
{
    let (v, w) = (b.x - a.x, b.y - a.y);
    let (pp, qq) = (d.x - c.x, d.y - c.y);
    lemma_cross_offsets(a, b, d); lemma_cross_offsets(a, b, c); lemma_cross_offsets(c, d, a); lemma_cross_offsets(c, d, b);
    // cross(a,b,d) - cross(a,b,c) = w (c.x - d.x) - v (c.y - d.y)
    assert(w * (a.x - d.x) - w * (a.x - c.x) == w * (c.x - d.x)) by (nonlinear_arith);
    assert(v * (a.y - d.y) - v * (a.y - c.y) == v * (c.y - d.y)) by (nonlinear_arith);
    // cross(c,d,a) - cross(c,d,b) = qq (b.x - a.x) - pp (b.y - a.y)
    assert(qq * (c.x - a.x) - qq * (c.x - b.x) == qq * (b.x - a.x)) by (nonlinear_arith);
    assert(pp * (c.y - a.y) - pp * (c.y - b.y) == pp * (b.y - a.y)) by (nonlinear_arith);
    assert(w * (c.x - d.x) == -(pp * w)) by (nonlinear_arith) requires pp == d.x - c.x;
    assert(v * (c.y - d.y) == -(qq * v)) by (nonlinear_arith) requires qq == d.y - c.y;
    lemma_flip(c, d, a); lemma_flip(c, d, b); lemma_flip(a, b, c); lemma_flip(a, b, d);
}
proof fn lemma_flip(c: P2, d: P2, p: P2) ensures cross(d, c, p) == -cross(c, d, p) {
    lemma_cross_offsets(d, c, p); lemma_cross_offsets(c, d, p);
    let (pp, qq) = (d.x - c.x, d.y - c.y);
    // cross(d,c,p) = (c.y-d.y)(d.x-p.x) - (c.x-d.x)(d.y-p.y);  cross(c,d,p) = qq (c.x-p.x) - pp (c.y-p.y)
    assert((c.y - d.y) * (d.x - p.x) == -(qq * (d.x - p.x))) by (nonlinear_arith) requires qq == d.y - c.y;
    assert((c.x - d.x) * (d.y - p.y) == -(pp * (d.y - p.y))) by (nonlinear_arith) requires pp == d.x - c.x;
    assert(qq * (d.x - p.x) == qq * (c.x - p.x) + qq * pp) by (nonlinear_arith) requires pp == d.x - c.x;
    assert(pp * (d.y - p.y) == pp * (c.y - p.y) + pp * qq) by (nonlinear_arith) requires qq == d.y - c.y;
    assert(qq * pp == pp * qq) by (nonlinear_arith);
}
/// an end point of one segment that is collinear with the other segment, whose ends are not strictly on one side of
/// the first: it lies ON the other segment -- unless all four orientations vanish (the collinear case)
pub proof fn lemma_touching(a: P2, b: P2, c: P2, d: P2)
    requires
        !same_strict_side(cross(a, b, c), cross(a, b, d)), !same_strict_side(cross(c, d, a), cross(c, d, b)),
        !(cross(a, b, c) == 0 && cross(a, b, d) == 0 && cross(c, d, a) == 0 && cross(c, d, b) == 0),
    ensures
        cross(a, b, c) == 0 ==> on_segment(c, a, b),
        cross(a, b, d) == 0 ==> on_segment(d, a, b),
        cross(c, d, a) == 0 ==> on_segment(a, c, d),
        cross(c, d, b) == 0 ==> on_segment(b, c, d),
{
    lemma_four_crosses(a, b, c, d);
    if cross(a, b, c) == 0 { if cross(c, d, a) != cross(c, d, b) { lemma_crossing_point_on_segment(a, b, c, d); } }
    if cross(a, b, d) == 0 { if cross(d, c, a) != cross(d, c, b) { lemma_crossing_point_on_segment(a, b, d, c); } }
    if cross(c, d, a) == 0 { if cross(a, b, c) != cross(a, b, d) { lemma_crossing_point_on_segment(c, d, a, b); } }
    if cross(c, d, b) == 0 { if cross(b, a, c) != cross(b, a, d) { lemma_crossing_point_on_segment(c, d, b, a); } }
}

/// the end points of a segment lie on it
pub proof fn lemma_ends_on_segment(a: P2, b: P2) ensures on_segment(a, a, b), on_segment(b, a, b) {
    assert(cross(a, b, a) == 0) by (nonlinear_arith) requires cross(a, b, a) == (b.x - a.x) * (a.y - b.y) - (b.y - a.y) * (a.x - b.x);
    assert(cross(a, b, b) == 0) by (nonlinear_arith) requires cross(a, b, b) == (b.x - a.x) * (b.y - b.y) - (b.y - a.y) * (b.x - b.x);
}

/// on a common carrier line the box test is one-dimensional: for a, b, p collinear and a != b, membership of p in the
/// box of [a, b] is decided by the x coordinates alone (non-vertical line) or by the y coordinates alone (vertical line)
pub proof fn lemma_collinear_1d(a: P2, b: P2, p: P2)
    requires cross(a, b, p) == 0, a != b,
    ensures
        a.x != b.x ==> (in_box(p, a, b) == between(p.x, a.x, b.x)),
        a.x == b.x ==> p.x == a.x && (in_box(p, a, b) == between(p.y, a.y, b.y)),
{
    let (v, w) = (b.x - a.x, b.y - a.y);
    let (u, s) = (p.x - a.x, p.y - a.y);
    // cross(a, b, p) = v (p.y - b.y) - w (p.x - b.x) = v s - w u
    assert(cross(a, b, p) == v * s - w * u) by (nonlinear_arith) requires cross(a, b, p) == v * (s - w) - w * (u - v);
    if v != 0 {
        if between(p.x, a.x, b.x) {
            assert(s * v == w * u) by (nonlinear_arith) requires v * s - w * u == 0;
            lemma_ratio(s, w, u, v);
        }
    } else {
        assert(w != 0);
        assert(u == 0) by (nonlinear_arith) requires w * u == 0, w != 0;
    }
}
/// two distinct points of a non-vertical line have different x coordinates
pub proof fn lemma_collinear_distinct_x(a: P2, b: P2, c: P2, d: P2)
    requires cross(a, b, c) == 0, cross(a, b, d) == 0, a != b, c != d,
    ensures (a.x != b.x) == (c.x != d.x),
{
    let (v, w) = (b.x - a.x, b.y - a.y);
    lemma_cross_offsets(a, b, c); lemma_cross_offsets(a, b, d);
    assert(w * (a.x - c.x) - w * (a.x - d.x) == w * (d.x - c.x)) by (nonlinear_arith);
    assert(v * (a.y - c.y) - v * (a.y - d.y) == v * (d.y - c.y)) by (nonlinear_arith);
    assert(w * (d.x - c.x) == -(w * (c.x - d.x))) by (nonlinear_arith);
    assert(v * (d.y - c.y) == -(v * (c.y - d.y))) by (nonlinear_arith);
    assert(v * (c.y - d.y) - w * (c.x - d.x) == 0);
    if v != 0 && c.x == d.x {
        assert(c.y - d.y == 0) by (nonlinear_arith) requires v * (c.y - d.y) - w * (c.x - d.x) == 0, c.x == d.x, v != 0;
    }
    if v == 0 && c.x != d.x {
        assert(w != 0);
        assert(false) by (nonlinear_arith) requires v * (c.y - d.y) - w * (c.x - d.x) == 0, v == 0, w != 0, c.x != d.x;
    }
}

/// one axis of the crossing point: X D = a0 D + (b0 - a0) f = c0 D + (d0 - c0) g with 0 <= f, g <= D: the intervals
/// [a0, b0] and [c0, d0] overlap
proof fn lemma_axis(a0: int, b0: int, c0: int, d0: int, f: int, g: int, dd: int)
    requires dd > 0, 0 <= f <= dd, 0 <= g <= dd, (a0 - c0) * dd + (b0 - a0) * f - (d0 - c0) * g == 0,
    ensures !(imax(a0, b0) < imin(c0, d0)), !(imin(a0, b0) > imax(c0, d0)),
{
    let v = b0 - a0; let pp = d0 - c0;
    let xd = a0 * dd + v * f;
    assert((a0 - c0) * dd == a0 * dd - c0 * dd) by (nonlinear_arith);
    assert(xd == c0 * dd + pp * g);
    if v >= 0 { assert(0 <= v * f <= v * dd) by (nonlinear_arith) requires 0 <= f <= dd, v >= 0; }
    else { assert(v * dd <= v * f <= 0) by (nonlinear_arith) requires 0 <= f <= dd, v < 0; }
    assert(v * dd == b0 * dd - a0 * dd) by (nonlinear_arith) requires v == b0 - a0;
    if pp >= 0 { assert(0 <= pp * g <= pp * dd) by (nonlinear_arith) requires 0 <= g <= dd, pp >= 0; }
    else { assert(pp * dd <= pp * g <= 0) by (nonlinear_arith) requires 0 <= g <= dd, pp < 0; }
    assert(pp * dd == d0 * dd - c0 * dd) by (nonlinear_arith) requires pp == d0 - c0;
    let (lo1, hi1, lo2, hi2) = (imin(a0, b0), imax(a0, b0), imin(c0, d0), imax(c0, d0));
    assert(lo1 * dd <= xd <= hi1 * dd);
    assert(lo2 * dd <= xd <= hi2 * dd);
    if hi1 < lo2 { assert(hi1 * dd < lo2 * dd) by (nonlinear_arith) requires hi1 < lo2, dd > 0; }
    if lo1 > hi2 { assert(lo1 * dd > hi2 * dd) by (nonlinear_arith) requires lo1 > hi2, dd > 0; }
}
/// -u (Q v - P w) + v (Q u - P s) + P (v s - u w) == 0   (the crossing point computed from either segment is the same)
proof fn lemma_same_point(u: int, v: int, w: int, s: int, p: int, q: int)
    ensures -(u * (q * v - p * w)) + v * (q * u - p * s) + p * (v * s - u * w) == 0
{
    lemma_degree3(u, v, w, s, p, q);
}
/// two segments each of which has its ends STRICTLY on opposite sides of the other: their envelopes intersect
pub proof fn lemma_proper_cross_boxes(a: P2, b: P2, c: P2, d: P2)
    requires
        (cross(c, d, a) < 0 && 0 < cross(c, d, b)) || (cross(c, d, b) < 0 && 0 < cross(c, d, a)),
        (cross(a, b, c) < 0 && 0 < cross(a, b, d)) || (cross(a, b, d) < 0 && 0 < cross(a, b, c)),
    ensures !boxes_disjoint(a, b, c, d)
{
    let (fa, fb, gc, gd) = (cross(c, d, a), cross(c, d, b), cross(a, b, c), cross(a, b, d));
    let (u, s) = (c.x - a.x, c.y - a.y);
    let (v, w) = (b.x - a.x, b.y - a.y);
    let (p, q) = (d.x - c.x, d.y - c.y);
    lemma_four_crosses(a, b, c, d);          // gd - gc == fa - fb
    lemma_cross_offsets(c, d, a);            // fa == q u - p s
    lemma_cross_offsets(c, d, b);
    assert(fb == q * (u - v) - p * (s - w));
    assert(fa - fb == q * v - p * w) by (nonlinear_arith) requires fa == q * u - p * s, fb == q * (u - v) - p * (s - w);
    assert(gc == v * s - u * w) by (nonlinear_arith) requires gc == v * ((s - w)) - w * ((u - v));
    lemma_same_point(u, v, w, s, p, q);      // -u D + v fa + p gc == 0
    lemma_same_point(s, w, v, u, q, p);      // -s (P w - Q v) + w (P s - Q u) + Q (w u - s v) == 0
    let dd = fa - fb;
    // x axis: (a.x - c.x) D + v fa - p (-gc) == 0
    assert((a.x - c.x) * dd + v * fa - p * (-gc) == 0) by (nonlinear_arith)
        requires -(u * (q * v - p * w)) + v * (q * u - p * s) + p * (v * s - u * w) == 0, dd == q * v - p * w, fa == q * u - p * s, gc == v * s - u * w, u == c.x - a.x;
    // y axis: (a.y - c.y) D + w fa - q (-gc) == 0
    assert((a.y - c.y) * dd + w * fa - q * (-gc) == 0) by (nonlinear_arith)
        requires -(s * (p * w - q * v)) + w * (p * s - q * u) + q * (w * u - s * v) == 0, dd == q * v - p * w, fa == q * u - p * s, gc == v * s - u * w, s == c.y - a.y;
    if dd > 0 {
        lemma_axis(a.x, b.x, c.x, d.x, fa, -gc, dd);
        lemma_axis(a.y, b.y, c.y, d.y, fa, -gc, dd);
    } else {
        assert((a.x - c.x) * (-dd) + v * (-fa) - p * gc == 0) by (nonlinear_arith) requires (a.x - c.x) * dd + v * fa - p * (-gc) == 0;
        assert((a.y - c.y) * (-dd) + w * (-fa) - q * gc == 0) by (nonlinear_arith) requires (a.y - c.y) * dd + w * fa - q * (-gc) == 0;
        lemma_axis(a.x, b.x, c.x, d.x, -fa, gc, -dd);
        lemma_axis(a.y, b.y, c.y, d.y, -fa, gc, -dd);
    }
}
/// a point of segment cd that lies on the carrier line of ab puts c and d on opposite closed sides of that line:
/// so if c and d are STRICTLY on one side of ab, no point of cd -- in particular neither a nor b -- is on cd... (used
/// through its contrapositive below)
pub proof fn lemma_on_segment_opposite_sides(a: P2, b: P2, c: P2, d: P2)
    requires on_segment(a, c, d), c != d,
    ensures !same_strict_side(cross(a, b, c), cross(a, b, d))
{
    let (gc, gd) = (cross(a, b, c), cross(a, b, d));
    if same_strict_side(gc, gd) {
        // a is on line cd; by lemma_crossing_point_on_segment's identity with the roles (a,b,c,d) -> (c,d,a,b):
        //   (a.x - c.x) (gc' - gd') == (d.x - c.x) gc'   where g' = cross(a, b, .) evaluated at c, d
        let (u, s) = (a.x - c.x, a.y - c.y);
        let (v, w) = (d.x - c.x, d.y - c.y);
        let (p, q) = (b.x - a.x, b.y - a.y);
        lemma_cross_offsets(a, b, c);
        lemma_cross_offsets(a, b, d);
        assert(gc == q * u - p * s);
        assert(gd == q * (u - v) - p * (s - w));
        assert(gc - gd == q * v - p * w) by (nonlinear_arith) requires gc == q * u - p * s, gd == q * (u - v) - p * (s - w);
        assert(cross(c, d, a) == v * s - u * w) by (nonlinear_arith) requires cross(c, d, a) == v * ((s - w)) - w * ((u - v));
        lemma_degree3(u, v, w, s, p, q);
        assert(p * (v * s - u * w) == 0) by (nonlinear_arith) requires v * s - u * w == 0;
        assert(u * (gc - gd) == v * gc);
        lemma_degree3(s, w, v, u, q, p);
        assert(q * (w * u - s * v) == 0) by (nonlinear_arith) requires v * s - u * w == 0;
        assert(s * (p * w - q * v) == w * (p * s - q * u));
        assert(s * (gc - gd) == w * gc) by (nonlinear_arith) requires s * (p * w - q * v) == w * (p * s - q * u), gc - gd == q * v - p * w, gc == q * u - p * s;
        // (u - v) gc == u gd with u between 0 and v, gc and gd of one strict sign: u == 0 and u == v, so v == 0
        assert((u - v) * gc == u * gd) by (nonlinear_arith) requires u * (gc - gd) == v * gc;
        assert((s - w) * gc == s * gd) by (nonlinear_arith) requires s * (gc - gd) == w * gc;
        assert(v == 0) by (nonlinear_arith)
            requires (u - v) * gc == u * gd, (0 <= u <= v) || (v <= u <= 0), (gc > 0 && gd > 0) || (gc < 0 && gd < 0);
        assert(w == 0) by (nonlinear_arith)
            requires (s - w) * gc == s * gd, (0 <= s <= w) || (w <= s <= 0), (gc > 0 && gd > 0) || (gc < 0 && gd < 0);
        assert(false);
    }
}
/// the two rejections of `line_intersection` are sound: disjoint envelopes, or both ends of one segment strictly on one
/// side of the other, mean the segments share no point (textbook test)
pub proof fn lemma_rejections_sound(a: P2, b: P2, c: P2, d: P2)
    requires a != b, c != d,
    ensures
        boxes_disjoint(a, b, c, d) ==> !seg_meet(a, b, c, d),
        same_strict_side(cross(a, b, c), cross(a, b, d)) ==> !seg_meet(a, b, c, d),
        same_strict_side(cross(c, d, a), cross(c, d, b)) ==> !seg_meet(a, b, c, d),
{
    let (fa, fb, gc, gd) = (cross(c, d, a), cross(c, d, b), cross(a, b, c), cross(a, b, d));
    lemma_four_crosses(a, b, c, d);
    if same_strict_side(gc, gd) {
        if on_segment(a, c, d) { lemma_on_segment_opposite_sides(a, b, c, d); }
        if on_segment(b, c, d) { lemma_flip(a, b, c); lemma_flip(a, b, d); lemma_on_segment_opposite_sides(b, a, c, d); }
    }
    if same_strict_side(fa, fb) {
        if on_segment(c, a, b) { lemma_on_segment_opposite_sides(c, d, a, b); }
        if on_segment(d, a, b) { lemma_flip(c, d, a); lemma_flip(c, d, b); lemma_on_segment_opposite_sides(d, c, a, b); }
    }
    if boxes_disjoint(a, b, c, d) && seg_meet(a, b, c, d) {
        // an end point on the other segment is in both envelopes (linear); otherwise the orientations differ both ways
        if !(on_segment(c, a, b) || on_segment(d, a, b) || on_segment(a, c, d) || on_segment(b, c, d)) {
            if !(gc == 0 && gd == 0 && fa == 0 && fb == 0) { lemma_touching(a, b, c, d); }
            // no orientation vanishes now: strict crossing
            lemma_proper_cross_boxes(a, b, c, d);
        }
    }
}

/// collinearity is transitive along a non-degenerate segment: c and d on the carrier line of ab (a != b) put a and b on
/// the carrier line of cd
pub proof fn lemma_collinear_transitive(a: P2, b: P2, c: P2, d: P2)
    requires cross(a, b, c) == 0, cross(a, b, d) == 0, a != b,
    ensures cross(c, d, a) == 0, cross(c, d, b) == 0,
{
    let (u, s) = (c.x - a.x, c.y - a.y);
    let (v, w) = (b.x - a.x, b.y - a.y);
    let (p, q) = (d.x - c.x, d.y - c.y);
    let (fa, fb) = (cross(c, d, a), cross(c, d, b));
    lemma_four_crosses(a, b, c, d);          // fa - fb == gd - gc == 0
    lemma_cross_offsets(c, d, a);            // fa == q u - p s
    lemma_cross_offsets(c, d, b);
    assert(fb == q * (u - v) - p * (s - w));
    assert(fa - fb == q * v - p * w) by (nonlinear_arith) requires fa == q * u - p * s, fb == q * (u - v) - p * (s - w);
    assert(cross(a, b, c) == v * s - u * w) by (nonlinear_arith) requires cross(a, b, c) == v * ((s - w)) - w * ((u - v));
    // v fa = u (q v - p w) - p (v s - u w) = 0, and likewise w fa = 0; (v, w) != 0
    lemma_degree3(u, v, w, s, p, q);         // u (q v - p w) - v (q u - p s) == p (v s - u w)
    assert(u * (q * v - p * w) == 0) by (nonlinear_arith) requires q * v - p * w == 0;
    assert(p * (v * s - u * w) == 0) by (nonlinear_arith) requires v * s - u * w == 0;
    assert(v * fa == 0);
    lemma_degree3(s, w, v, u, q, p);         // s (p w - q v) - w (p s - q u) == q (w u - s v)
    assert(s * (p * w - q * v) == 0) by (nonlinear_arith) requires q * v - p * w == 0;
    assert(q * (w * u - s * v) == 0) by (nonlinear_arith) requires v * s - u * w == 0;
    assert(w * (p * s - q * u) == 0);
    assert(w * fa == 0) by (nonlinear_arith) requires w * (p * s - q * u) == 0, fa == q * u - p * s;
    if v != 0 { assert(fa == 0) by (nonlinear_arith) requires v * fa == 0, v != 0; }
    else { assert(w != 0); assert(fa == 0) by (nonlinear_arith) requires w * fa == 0, w != 0; }
}

/// textbook test: the closed segments [a,b] and [c,d] share a point (as the K oracle spec::seg_meet)
pub open spec fn seg_meet(a: P2, b: P2, c: P2, d: P2) -> bool {
    (orient_spec(a, b, c) != orient_spec(a, b, d) && orient_spec(c, d, a) != orient_spec(c, d, b))
    || on_segment(c, a, b) || on_segment(d, a, b) || on_segment(a, c, d) || on_segment(b, c, d)
}
pub open spec fn same_strict_side(x: int, y: int) -> bool { (x > 0 && y > 0) || (x < 0 && y < 0) }
pub open spec fn boxes_disjoint(a: P2, b: P2, c: P2, d: P2) -> bool {
    imax(a.x, b.x) < imin(c.x, d.x) || imax(a.y, b.y) < imin(c.y, d.y) || imin(a.x, b.x) > imax(c.x, d.x) || imin(a.y, b.y) > imax(c.y, d.y)
}

} // verus!
