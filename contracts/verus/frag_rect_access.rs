// fragment: Rect field views + accessors (extracted; contracts as in unit c18_geo_types)
verus! {
pub closed spec fn rmin<T: CoordNum>(r: Rect<T>) -> Coord<T> { r.min }
pub closed spec fn rmax<T: CoordNum>(r: Rect<T>) -> Coord<T> { r.max }
impl<T: CoordNum> Rect<T> {
//@fn geo-types/src/geometry/rect.rs | impl<T: CoordNum> Rect<T> | min | id=C18.V.rect_min | props=C18
//@ret r
//@spec
    ensures r == rmin(self),
//@end
//@fn geo-types/src/geometry/rect.rs | impl<T: CoordNum> Rect<T> | max | id=C18.V.rect_max | props=C18
//@ret r
//@spec
    ensures r == rmax(self),
//@end
}
}
