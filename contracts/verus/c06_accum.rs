// Unit c06_accum: the accumulator behind every `centroid()` (property C06: "the area-weighted centre of mass of the
// members with positive area if there are any, else the length-weighted average of segment midpoints of the linear
// members, else the mean of the points" -- the dimension-dominance rule "for every combination").
// Proved, over the exact ring scalar, for ANY number of members:
//   * WeightedCentroid::add_assign / sub_assign, CentroidOperation::{add_weighted_centroid, add_centroid, add_coord,
//     add_line, add_line_string, add_multi_line_string, add_multi_point, centroid_dimensions} against the abstract
//     combination `comb` (higher dimension replaces, equal dimensions add, lower is ignored);
//   * lemma_fold_dominance: folding `comb` over ANY sequence of contributions yields exactly the sums of weight and
//     weight x centre over the contributions of MAXIMAL dimension -- the statement of the property.
// ASSUMED: derived Ord of `Dimensions` follows declaration order; Line::centroid and Euclidean length are abstract
// (their values are not looked at); LineString::lines() twin.  Polygon rings (`add_ring`: an iterator fold with
// closures) and the final division are outside this unit (K harnesses of C06 / C13).
//@include prelude_exact.rs
use vstd::std_specs::iter::IteratorSpec;
verus! {
pub trait GeoFloat: CoordFloat {
    /// num_traits::Zero::is_zero
    fn is_zero(&self) -> (r: bool) ensures r == (self.val() == 0);
}
//@type geo-types/src/geometry/coord.rs | Coord
//@type geo-types/src/geometry/point.rs | Point
//@type geo-types/src/geometry/line.rs | Line
//@type geo-types/src/geometry/line_string.rs | LineString
//@type geo-types/src/geometry/multi_line_string.rs | MultiLineString
//@type geo-types/src/geometry/multi_point.rs | MultiPoint
//@type geo-types/src/geometry/polygon.rs | Polygon
//@type geo-types/src/geometry/rect.rs | Rect
//@type geo-types/src/geometry/multi_polygon.rs | MultiPolygon
//@type geo/src/algorithm/dimensions.rs | Dimensions
//@type geo/src/algorithm/line_measures/metric_spaces/euclidean/mod.rs | Euclidean
//@type geo/src/algorithm/centroid.rs | WeightedCentroid
//@type geo/src/algorithm/centroid.rs | CentroidOperation
pub use Dimensions::*;

impl<T: CoordNum> vstd::std_specs::cmp::PartialEqSpecImpl for Coord<T> {
    open spec fn obeys_eq_spec() -> bool { T::obeys_eq_spec() }
    open spec fn eq_spec(&self, other: &Self) -> bool { self.x.eq_spec(&other.x) && self.y.eq_spec(&other.y) }
}
pub open spec fn ceq<T: CoordNum>(a: Coord<T>, b: Coord<T>) -> bool { a.x.val() == b.x.val() && a.y.val() == b.y.val() }

// ---- Dimensions: derived Ord / PartialOrd = declaration order (ASSUMED: what the derive generates)
pub open spec fn rank(d: Dimensions) -> int {
    match d { Dimensions::Empty => 0, Dimensions::ZeroDimensional => 1, Dimensions::OneDimensional => 2, Dimensions::TwoDimensional => 3 }
}
impl Dimensions {
    #[verifier::external_body]
    pub fn cmp(&self, other: &Dimensions) -> (r: Ordering) ensures r == int_cmp(rank(*self), rank(*other)) { unimplemented!() }
}
impl vstd::std_specs::cmp::PartialOrdSpecImpl for Dimensions {
    open spec fn obeys_partial_cmp_spec() -> bool { true }
    open spec fn partial_cmp_spec(&self, other: &Dimensions) -> Option<Ordering> { Some(int_cmp(rank(*self), rank(*other))) }
}
impl PartialOrd for Dimensions {
    #[verifier::external_body]
    fn partial_cmp(&self, other: &Dimensions) -> (r: Option<Ordering>) { unimplemented!() }
}

// ---- Coord arithmetic (extracted)
impl<T: CoordNum> vstd::std_specs::ops::AddSpecImpl for Coord<T> {
    open spec fn obeys_add_spec() -> bool { false }
    open spec fn add_req(self, rhs: Self) -> bool { true }
    uninterp spec fn add_spec(self, rhs: Self) -> Self;
}
impl<T: CoordNum> core::ops::Add for Coord<T> {
    type Output = Self;
//@fn geo-types/src/geometry/coord.rs | impl<T: CoordNum> Add for Coord<T> | add | id=C06.V.coord_add
//@ret r
//@spec
        ensures r.x.val() == self.x.val() + rhs.x.val(), r.y.val() == self.y.val() + rhs.y.val(),
//@entry
        proof { T::ax_obeys(); T::ax_ring(); }
//@end
}
impl<T: CoordNum> vstd::std_specs::ops::SubSpecImpl for Coord<T> {
    open spec fn obeys_sub_spec() -> bool { false }
    open spec fn sub_req(self, rhs: Self) -> bool { true }
    uninterp spec fn sub_spec(self, rhs: Self) -> Self;
}
impl<T: CoordNum> core::ops::Sub for Coord<T> {
    type Output = Self;
//@fn geo-types/src/geometry/coord.rs | impl<T: CoordNum> Sub for Coord<T> | sub | id=C06.V.coord_sub
//@ret r
//@spec
        ensures r.x.val() == self.x.val() - rhs.x.val(), r.y.val() == self.y.val() - rhs.y.val(),
//@entry
        proof { T::ax_obeys(); T::ax_ring(); }
//@end
}
impl<T: CoordNum> vstd::std_specs::ops::MulSpecImpl<T> for Coord<T> {
    open spec fn obeys_mul_spec() -> bool { false }
    open spec fn mul_req(self, rhs: T) -> bool { true }
    uninterp spec fn mul_spec(self, rhs: T) -> Self;
}
impl<T: CoordNum> core::ops::Mul<T> for Coord<T> {
    type Output = Self;
//@fn geo-types/src/geometry/coord.rs | impl<T: CoordNum> Mul<T> for Coord<T> | mul | id=C06.V.coord_mul_scalar
//@ret r
//@spec
        ensures r.x.val() == self.x.val() * rhs.val(), r.y.val() == self.y.val() * rhs.val(),
//@entry
        proof { T::ax_obeys(); T::ax_ring(); }
//@end
}

// ------------------------------------------------------------------ the abstract accumulator
/// a contribution / an accumulator state: (dimension rank, weight, weight x centre)
pub struct V { pub rank: int, pub w: int, pub ax: int, pub ay: int }
/// higher dimension replaces, lower is ignored, equal dimensions add
pub open spec fn comb(a: V, b: V) -> V {
    if a.rank < b.rank { b } else if a.rank > b.rank { a } else { V { rank: a.rank, w: a.w + b.w, ax: a.ax + b.ax, ay: a.ay + b.ay } }
}
pub open spec fn comb_opt(a: Option<V>, b: V) -> Option<V> { match a { None => Some(b), Some(x) => Some(comb(x, b)) } }
pub closed spec fn wc_view<T: GeoFloat>(w: WeightedCentroid<T>) -> V {
    V { rank: rank(w.dimensions), w: w.weight.val(), ax: w.accumulated.x.val(), ay: w.accumulated.y.val() }
}
pub closed spec fn op_view<T: GeoFloat>(o: CentroidOperation<T>) -> Option<V> {
    match o.0 { None => None, Some(w) => Some(wc_view(w)) }
}

impl<T: GeoFloat> WeightedCentroid<T> {
//@fn geo/src/algorithm/centroid.rs | impl<T: GeoFloat> WeightedCentroid<T> | add_assign | id=C06.V.wc_add_assign
//@spec
        ensures wc_view(*final(self)) == comb(wc_view(*old(self)), wc_view(b)),
//@entry
        proof { T::ax_obeys(); T::ax_ring(); }
//@end
//@fn geo/src/algorithm/centroid.rs | impl<T: GeoFloat> WeightedCentroid<T> | sub_assign | id=C06.V.wc_sub_assign
//@spec
        ensures
            // a hole set of the same dimension is subtracted; a lower one is ignored; a higher one replaces
            wc_view(*final(self)) == (if wc_view(*old(self)).rank < wc_view(b).rank { wc_view(b) } else if wc_view(*old(self)).rank > wc_view(b).rank { wc_view(*old(self)) }
                else { V { rank: wc_view(b).rank, w: wc_view(*old(self)).w - wc_view(b).w, ax: wc_view(*old(self)).ax - wc_view(b).ax, ay: wc_view(*old(self)).ay - wc_view(b).ay } }),
//@entry
        proof { T::ax_obeys(); T::ax_ring(); }
//@end
}

// ------------------------------------------------------------------ collaborators of add_line (abstract)
pub uninterp spec fn m_len<T: GeoFloat>(l: Line<T>) -> int;
pub uninterp spec fn m_mid<T: GeoFloat>(l: Line<T>) -> Coord<T>;
pub trait Length<F> { fn length(&self, geometry: &Line<F>) -> F where F: CoordNum; }
impl<F: GeoFloat> Length<F> for Euclidean {
    #[verifier::external_body]
    fn length(&self, geometry: &Line<F>) -> (r: F) ensures r.val() == m_len(*geometry) { unimplemented!() }
}
pub trait Centroid { type Output; fn centroid(&self) -> Self::Output; }
impl<T: GeoFloat> Centroid for Line<T> {
    type Output = Point<T>;
    #[verifier::external_body]
    fn centroid(&self) -> (r: Point<T>) ensures r.0 == m_mid(*self) { unimplemented!() }
}
pub trait HasDimensions { fn dimensions(&self) -> Dimensions; }
impl<C: CoordNum> HasDimensions for Line<C> {
//@fn geo/src/algorithm/dimensions.rs | impl<C: CoordNum> HasDimensions for Line<C> | dimensions | id=C06.V.line_dimensions
//@ret r
//@spec
        ensures r == (if ceq(self.start, self.end) { Dimensions::ZeroDimensional } else { Dimensions::OneDimensional }),
//@entry
        proof { C::ax_obeys(); C::ax_order(); }
//@end
}
pub open spec fn line_seq<T: CoordNum>(s: Seq<Coord<T>>) -> Seq<Line<T>> {
    Seq::new(if s.len() >= 1 { (s.len() - 1) as nat } else { 0 }, |i: int| Line { start: s[i], end: s[i + 1] })
}
impl<T: CoordNum> LineString<T> {
    /// twin of `LineString::lines()` (iterator adapters are outside Verus' dialect)
    #[verifier::external_body]
    pub fn lines(&self) -> (r: Vec<Line<T>>) ensures r@ == line_seq(self.0@) { unimplemented!() }
}

// ------------------------------------------------------------------ contributions
pub open spec fn coord_contrib<T: GeoFloat>(c: Coord<T>) -> V { V { rank: 1, w: 1, ax: c.x.val(), ay: c.y.val() } }
/// a segment: its midpoint weighted by its length -- or, degenerate, its start as a point
pub open spec fn line_contrib<T: GeoFloat>(l: Line<T>) -> V {
    if ceq(l.start, l.end) { coord_contrib(l.start) }
    else { V { rank: 2, w: m_len(l), ax: m_mid(l).x.val() * m_len(l), ay: m_mid(l).y.val() * m_len(l) } }
}
/// state after the first k segments of a line string
pub open spec fn lines_fold<T: GeoFloat>(init: Option<V>, s: Seq<Coord<T>>, k: int) -> Option<V>
    decreases k
{
    if k <= 0 { init } else { comb_opt(lines_fold(init, s, k - 1), line_contrib(Line { start: s[k - 1], end: s[k] })) }
}
pub open spec fn rank_of(a: Option<V>) -> int { match a { None => 0, Some(v) => v.rank } }
/// what add_line_string does to a state
pub open spec fn ls_step<T: GeoFloat>(init: Option<V>, s: Seq<Coord<T>>) -> Option<V> {
    if rank_of(init) > 2 { init }
    else if s.len() == 1 { comb_opt(init, coord_contrib(s[0])) }
    else { lines_fold(init, s, s.len() - 1) }
}
pub open spec fn mls_fold<T: GeoFloat>(init: Option<V>, m: Seq<LineString<T>>, k: int) -> Option<V>
    decreases k
{
    if k <= 0 { init } else { ls_step(mls_fold(init, m, k - 1), m[k - 1].0@) }
}
pub open spec fn points_fold<T: GeoFloat>(init: Option<V>, m: Seq<Point<T>>, k: int) -> Option<V>
    decreases k
{
    if k <= 0 { init } else { comb_opt(points_fold(init, m, k - 1), coord_contrib(m[k - 1].0)) }
}
/// every accumulator state built by the functions below has a non-empty dimension
pub open spec fn op_wf<T: GeoFloat>(o: CentroidOperation<T>) -> bool { op_view(o) is Some ==> op_view(o)->Some_0.rank >= 1 }

impl<T: GeoFloat> CentroidOperation<T> {
//@fn geo/src/algorithm/centroid.rs | impl<T: GeoFloat> CentroidOperation<T> | new | id=C06.V.op_new
//@ret r
//@spec
        ensures op_view(r) is None,
//@end
//@fn geo/src/algorithm/centroid.rs | impl<T: GeoFloat> CentroidOperation<T> | centroid_dimensions | id=C06.V.op_centroid_dimensions
//@ret r
//@spec
        ensures rank(r) == rank_of(op_view(*self)) || (op_view(*self) is Some && rank(r) == op_view(*self)->Some_0.rank),
                op_view(*self) is None ==> r == Dimensions::Empty,
                op_view(*self) is Some ==> rank(r) == op_view(*self)->Some_0.rank,
//@closure 1 `|weighted_centroid|` | weighted_centroid: &WeightedCentroid<T> | d: Dimensions
            ensures d == weighted_centroid.dimensions
//@end
//@fn geo/src/algorithm/centroid.rs | impl<T: GeoFloat> CentroidOperation<T> | add_weighted_centroid | id=C06.V.op_add_weighted_centroid
//@spec
        ensures op_view(*final(self)) == comb_opt(op_view(*old(self)), wc_view(other)),
//@end
//@fn geo/src/algorithm/centroid.rs | impl<T: GeoFloat> CentroidOperation<T> | add_centroid | id=C06.V.op_add_centroid
//@spec
        ensures op_view(*final(self)) == comb_opt(op_view(*old(self)),
                    V { rank: rank(dimensions), w: weight.val(), ax: centroid.x.val() * weight.val(), ay: centroid.y.val() * weight.val() }),
//@end
//@fn geo/src/algorithm/centroid.rs | impl<T: GeoFloat> CentroidOperation<T> | add_coord | id=C06.V.op_add_coord
//@spec
        ensures op_view(*final(self)) == comb_opt(op_view(*old(self)), coord_contrib(coord)),
//@entry
        proof { assert forall|a: int| #[trigger] (a * 1) == a by { assert(a * 1 == a) by (nonlinear_arith); } }
//@end
//@fn geo/src/algorithm/centroid.rs | impl<T: GeoFloat> CentroidOperation<T> | add_line | id=C06.V.op_add_line
//@spec
        ensures op_view(*final(self)) == comb_opt(op_view(*old(self)), line_contrib(*line)),
//@end
//@fn geo/src/algorithm/centroid.rs | impl<T: GeoFloat> CentroidOperation<T> | add_line_string | id=C06.V.op_add_line_string
//@spec
        ensures op_view(*final(self)) == ls_step(op_view(*old(self)), line_string.0@),
//@loop 1 it
            invariant
                it.snapshot@.remaining() == line_seq(line_string.0@),
                op_view(*self) == lines_fold(op_view(*old(self)), line_string.0@, it.index@ as int),
//@end
//@fn geo/src/algorithm/centroid.rs | impl<T: GeoFloat> CentroidOperation<T> | add_multi_line_string | id=C06.V.op_add_multi_line_string
//@spec
        ensures
            op_view(*final(self)) == (if rank_of(op_view(*old(self))) > 2 { op_view(*old(self)) }
                                      else { mls_fold(op_view(*old(self)), multi_line_string.0@, multi_line_string.0@.len() as int) }),
//@loop 1 it
            invariant
                it.snapshot@.remaining().len() == multi_line_string.0@.len(),
                forall|i: int| 0 <= i < multi_line_string.0@.len() ==> *(#[trigger] it.snapshot@.remaining()[i]) == multi_line_string.0@[i],
                op_view(*self) == mls_fold(op_view(*old(self)), multi_line_string.0@, it.index@ as int),
//@end
//@fn geo/src/algorithm/centroid.rs | impl<T: GeoFloat> CentroidOperation<T> | add_multi_point | id=C06.V.op_add_multi_point
//@spec
        ensures
            op_view(*final(self)) == (if rank_of(op_view(*old(self))) > 1 { op_view(*old(self)) }
                                      else { points_fold(op_view(*old(self)), multi_point.0@, multi_point.0@.len() as int) }),
//@loop 1 it
            invariant
                it.snapshot@.remaining().len() == multi_point.0@.len(),
                forall|i: int| 0 <= i < multi_point.0@.len() ==> *(#[trigger] it.snapshot@.remaining()[i]) == multi_point.0@[i],
                op_view(*self) == points_fold(op_view(*old(self)), multi_point.0@, it.index@ as int),
//@end
}

// ------------------------------------------------------------------ polygons (the ring formula itself is abstract)
pub closed spec fn ext<T: CoordNum>(p: Polygon<T>) -> Seq<Coord<T>> { p.exterior.0@ }
pub closed spec fn ints<T: CoordNum>(p: Polygon<T>) -> Seq<LineString<T>> { p.interiors@ }
impl<T: CoordNum> Polygon<T> {
//@fn geo-types/src/geometry/polygon.rs | impl<T: CoordNum> Polygon<T> | exterior | id=C18.V.exterior | props=C18
//@ret r
//@spec
    ensures r.0@ == ext(*self),
//@end
//@fn geo-types/src/geometry/polygon.rs | impl<T: CoordNum> Polygon<T> | interiors | id=C18.V.interiors | props=C18
//@ret r
//@spec
    ensures r@ == ints(*self),
//@end
}
/// what `add_ring` does to a state (ASSUMED: an iterator fold with closures; bounded K harnesses cover it)
pub uninterp spec fn ring_step<T: GeoFloat>(init: Option<V>, ring: Seq<Coord<T>>) -> Option<V>;
impl<T: GeoFloat> CentroidOperation<T> {
    #[verifier::external_body]
    fn add_ring(&mut self, ring: &LineString<T>) ensures op_view(*final(self)) == ring_step(op_view(*old(self)), ring.0@) { unimplemented!() }
}
pub open spec fn holes_fold<T: GeoFloat>(hs: Seq<LineString<T>>, k: int) -> Option<V>
    decreases k
{
    if k <= 0 { None } else { ring_step(holes_fold(hs, k - 1), hs[k - 1].0@) }
}
pub open spec fn v_sub(a: V, b: V) -> V {
    if a.rank < b.rank { b } else if a.rank > b.rank { a } else { V { rank: b.rank, w: a.w - b.w, ax: a.ax - b.ax, ay: a.ay - b.ay } }
}
/// shell minus holes; a polygon whose holes cancel its whole weight falls back to the centroid of its OUTLINE
pub open spec fn polygon_step<T: GeoFloat>(init: Option<V>, p: Polygon<T>) -> Option<V> {
    let e = ring_step::<T>(None, ext(p));
    let h = holes_fold(ints(p), ints(p).len() as int);
    match e {
        None => init,
        Some(ev) => match h {
            None => comb_opt(init, ev),
            Some(hv) => if v_sub(ev, hv).w == 0 { ls_step(init, ext(p)) } else { comb_opt(init, v_sub(ev, hv)) },
        },
    }
}
pub open spec fn polygons_fold<T: GeoFloat>(init: Option<V>, m: Seq<Polygon<T>>, k: int) -> Option<V>
    decreases k
{
    if k <= 0 { init } else { polygon_step(polygons_fold(init, m, k - 1), m[k - 1]) }
}
impl<T: GeoFloat> CentroidOperation<T> {
//@fn geo/src/algorithm/centroid.rs | impl<T: GeoFloat> CentroidOperation<T> | add_polygon | id=C06.V.op_add_polygon
//@spec
        ensures op_view(*final(self)) == polygon_step(op_view(*old(self)), *polygon),
//@loop 1 it
            invariant
                it.snapshot@.remaining().len() == ints(*polygon).len(),
                forall|i: int| 0 <= i < ints(*polygon).len() ==> *(#[trigger] it.snapshot@.remaining()[i]) == ints(*polygon)[i],
                op_view(interior_operation) == holes_fold(ints(*polygon), it.index@ as int),
                op_view(exterior_operation) == ring_step::<T>(None, ext(*polygon)),
                *self == *old(self),
//@end
//@fn geo/src/algorithm/centroid.rs | impl<T: GeoFloat> CentroidOperation<T> | add_multi_polygon | id=C06.V.op_add_multi_polygon
//@spec
        ensures op_view(*final(self)) == polygons_fold(op_view(*old(self)), multi_polygon.0@, multi_polygon.0@.len() as int),
//@loop 1 it
            invariant
                it.snapshot@.remaining().len() == multi_polygon.0@.len(),
                forall|i: int| 0 <= i < multi_polygon.0@.len() ==> *(#[trigger] it.snapshot@.remaining()[i]) == multi_polygon.0@[i],
                op_view(*self) == polygons_fold(op_view(*old(self)), multi_polygon.0@, it.index@ as int),
//@end
}

// ------------------------------------------------------------------ Rect (degenerate rects count as points / lines)
pub closed spec fn rmin<T: CoordNum>(r: Rect<T>) -> Coord<T> { r.min }
pub closed spec fn rmax<T: CoordNum>(r: Rect<T>) -> Coord<T> { r.max }
impl<T: CoordNum> Rect<T> {
//@fn geo-types/src/geometry/rect.rs | impl<T: CoordNum> Rect<T> | min | id=C18.V.rect_min | props=C18
//@ret r
//@spec
    ensures r == rmin(self),
//@end
//@fn geo-types/src/geometry/rect.rs | impl<T: CoordNum> Rect<T> | max | id=C18.V.rect_max | props=C18
//@ret r
//@spec
    ensures r == rmax(self),
//@end
}
impl<T: CoordNum> Line<T> {
//@fn geo-types/src/geometry/line.rs | impl<T: CoordNum> Line<T> | new | id=C18.V.line_new | props=C18
//@ret r
//@spec
    requires forall|c: C| call_requires(C::into, (c,)),
    ensures call_ensures(C::into, (start,), r.start), call_ensures(C::into, (end,), r.end),
//@end
}
pub assume_specification<T>[ <T as core::convert::From<T>>::from ](t: T) -> (r: T)
    ensures r == t;
impl<C: CoordNum> HasDimensions for Rect<C> {
//@fn geo/src/algorithm/dimensions.rs | impl<C: CoordNum> HasDimensions for Rect<C> | dimensions | id=C06.V.rect_dimensions
//@ret r
//@spec
        ensures r == (if ceq(rmin(*self), rmax(*self)) { Dimensions::ZeroDimensional }
                      else if rmin(*self).x.val() == rmax(*self).x.val() || rmin(*self).y.val() == rmax(*self).y.val() { Dimensions::OneDimensional }
                      else { Dimensions::TwoDimensional }),
//@entry
        proof { C::ax_obeys(); C::ax_order(); }
//@end
}
pub uninterp spec fn m_rect_mid<T: GeoFloat>(r: Rect<T>) -> Coord<T>;
pub uninterp spec fn m_rect_area<T: GeoFloat>(r: Rect<T>) -> int;
impl<T: GeoFloat> Centroid for Rect<T> {
    type Output = Point<T>;
    #[verifier::external_body]
    fn centroid(&self) -> (r: Point<T>) ensures r.0 == m_rect_mid(*self) { unimplemented!() }
}
pub trait Area<T> { fn unsigned_area(&self) -> T; }
impl<T: GeoFloat> Area<T> for Rect<T> {
    #[verifier::external_body]
    fn unsigned_area(&self) -> (r: T) ensures r.val() == m_rect_area(*self) { unimplemented!() }
}
/// what add_rect does to a state: a point, the four (possibly degenerate) sides of a flat rect as lines, or the area-weighted centre
pub open spec fn rect_step<T: GeoFloat>(init: Option<V>, r: Rect<T>) -> Option<V> {
    let (mn, mx) = (rmin(r), rmax(r));
    if ceq(mn, mx) { comb_opt(init, coord_contrib(mn)) }
    else if mn.x.val() == mx.x.val() || mn.y.val() == mx.y.val() {
        comb_opt(comb_opt(comb_opt(comb_opt(init, line_contrib(Line { start: mn, end: mn })), line_contrib(Line { start: mn, end: mx })),
                          line_contrib(Line { start: mx, end: mx })), line_contrib(Line { start: mx, end: mn }))
    } else { comb_opt(init, V { rank: 3, w: m_rect_area(r), ax: m_rect_mid(r).x.val() * m_rect_area(r), ay: m_rect_mid(r).y.val() * m_rect_area(r) }) }
}
impl<T: GeoFloat> CentroidOperation<T> {
//@fn geo/src/algorithm/centroid.rs | impl<T: GeoFloat> CentroidOperation<T> | add_rect | id=C06.V.op_add_rect
//@spec
        ensures op_view(*final(self)) == rect_step(op_view(*old(self)), *rect),
//@end
}

// ------------------------------------------------------------------ the dimension-dominance rule (property level)
pub open spec fn fold_seq(init: Option<V>, cs: Seq<V>, k: int) -> Option<V>
    decreases k
{
    if k <= 0 { init } else { comb_opt(fold_seq(init, cs, k - 1), cs[k - 1]) }
}
pub open spec fn imax(a: int, b: int) -> int { if a >= b { a } else { b } }
/// the highest dimension among the initial state and the first k contributions
pub open spec fn max_rank(init: Option<V>, cs: Seq<V>, k: int) -> int
    decreases k
{
    if k <= 0 { rank_of(init) } else { imax(max_rank(init, cs, k - 1), cs[k - 1].rank) }
}
pub open spec fn pick(v: V, d: int, which: int) -> int {
    if v.rank != d { 0 } else if which == 0 { v.w } else if which == 1 { v.ax } else { v.ay }
}
/// sum of weight (which = 0) / weight x centre (1, 2) over the state and contributions of dimension exactly d
pub open spec fn sum_at(init: Option<V>, cs: Seq<V>, k: int, d: int, which: int) -> int
    decreases k
{
    if k <= 0 { match init { None => 0, Some(v) => pick(v, d, which) } } else { sum_at(init, cs, k - 1, d, which) + pick(cs[k - 1], d, which) }
}
proof fn lemma_sum_above_max(init: Option<V>, cs: Seq<V>, k: int, d: int, which: int)
    requires 0 <= k <= cs.len(), d > max_rank(init, cs, k),
    ensures sum_at(init, cs, k, d, which) == 0
    decreases k
{
    if k > 0 { lemma_sum_above_max(init, cs, k - 1, d, which); }
}
/// THE RULE: accumulating any sequence of contributions leaves exactly the totals of the contributions of maximal
/// dimension (so positive-area members decide alone if there are any, else the linear ones, else the points)
pub proof fn lemma_fold_dominance(init: Option<V>, cs: Seq<V>, k: int)
    requires 0 <= k <= cs.len(), init is Some || k > 0,
             forall|i: int| 0 <= i < cs.len() ==> (#[trigger] cs[i]).rank >= 1,
    ensures
        fold_seq(init, cs, k) == Some(V {
            rank: max_rank(init, cs, k),
            w: sum_at(init, cs, k, max_rank(init, cs, k), 0),
            ax: sum_at(init, cs, k, max_rank(init, cs, k), 1),
            ay: sum_at(init, cs, k, max_rank(init, cs, k), 2) }),
    decreases k
{
    if k > 0 {
        let c = cs[k - 1];
        let d = max_rank(init, cs, k);
        assert(d == imax(max_rank(init, cs, k - 1), c.rank));
        assert(sum_at(init, cs, k, d, 0) == sum_at(init, cs, k - 1, d, 0) + pick(c, d, 0));
        assert(sum_at(init, cs, k, d, 1) == sum_at(init, cs, k - 1, d, 1) + pick(c, d, 1));
        assert(sum_at(init, cs, k, d, 2) == sum_at(init, cs, k - 1, d, 2) + pick(c, d, 2));
        assert(fold_seq(init, cs, k) == comb_opt(fold_seq(init, cs, k - 1), c));
        if init is Some || k - 1 > 0 {
            lemma_fold_dominance(init, cs, k - 1);
            let m = max_rank(init, cs, k - 1);
            if c.rank > m {
                lemma_sum_above_max(init, cs, k - 1, c.rank, 0);
                lemma_sum_above_max(init, cs, k - 1, c.rank, 1);
                lemma_sum_above_max(init, cs, k - 1, c.rank, 2);
            }
        } else {
            // first contribution into an empty state
            assert(fold_seq(init, cs, 0) == init);
            assert(max_rank(init, cs, 0) == 0);
            assert(sum_at(init, cs, 0, d, 0) == 0 && sum_at(init, cs, 0, d, 1) == 0 && sum_at(init, cs, 0, d, 2) == 0);
        }
    } else {
        let v = init->Some_0;
        assert(fold_seq(init, cs, 0) == init);
        assert(max_rank(init, cs, 0) == v.rank);
        assert(sum_at(init, cs, 0, v.rank, 0) == v.w && sum_at(init, cs, 0, v.rank, 1) == v.ax && sum_at(init, cs, 0, v.rank, 2) == v.ay);
    }
}
/// the line-string and multi-point folds are this fold over their contributions
pub proof fn lemma_lines_fold_is_fold_seq<T: GeoFloat>(init: Option<V>, s: Seq<Coord<T>>, k: int)
    requires 0 <= k < s.len() || k == 0
    ensures lines_fold(init, s, k) == fold_seq(init, Seq::new((if s.len() >= 1 { s.len() - 1 } else { 0 }) as nat, |i: int| line_contrib(Line { start: s[i], end: s[i + 1] })), k)
    decreases k
{
    if k > 0 { lemma_lines_fold_is_fold_seq(init, s, k - 1); }
}
pub proof fn lemma_points_fold_is_fold_seq<T: GeoFloat>(init: Option<V>, m: Seq<Point<T>>, k: int)
    requires 0 <= k <= m.len()
    ensures points_fold(init, m, k) == fold_seq(init, Seq::new(m.len(), |i: int| coord_contrib(m[i].0)), k)
    decreases k
{
    if k > 0 { lemma_points_fold_is_fold_seq(init, m, k - 1); }
}

} // verus!
fn main() {}
