// Unit c01_boundary: the mod-2 boundary rule at the point where relate applies it (property C01: "boundary (mod-2
// rule for multi-line geometries)"): every insertion of a line end point at a node TOGGLES that node between
// boundary and interior for the operand being built, and leaves the other operand's label alone.
// Label and the node map are abstract (ASSUMED contracts: Label::position / set_on_position read / write one slot;
// add_node_with_coordinate returns the node stored at that coordinate).
//@include prelude_scalar.rs
use std::rc::Rc;
verus! {

pub trait GeoFloat: CoordNum {}
pub trait RTreeNum {}
impl<T: GeoFloat> RTreeNum for T {}
//@type geo-types/src/geometry/coord.rs | Coord
//@type geo/src/algorithm/coordinate_position.rs | CoordPos
impl vstd::std_specs::cmp::PartialEqSpecImpl for CoordPos {
    open spec fn obeys_eq_spec() -> bool { true }
    open spec fn eq_spec(&self, other: &Self) -> bool { *self == *other }
}
//@type geo/src/algorithm/relate/geomgraph/mod.rs | Direction

// ---- abstract collaborators -------------------------------------------------------------------
#[verifier::external_body]
pub struct Label { _p: () }
impl Clone for Label { #[verifier::external_body] fn clone(&self) -> Self { unimplemented!() } }
impl PartialEq for Label { #[verifier::external_body] fn eq(&self, other: &Self) -> bool { unimplemented!() } }
/// the `On` position recorded for operand i (0 or 1)
pub uninterp spec fn on_pos(l: Label, i: int) -> Option<CoordPos>;
impl Label {
    #[verifier::external_body]
    pub fn position(&self, geom_index: usize, direction: Direction) -> (r: Option<CoordPos>)
        requires geom_index < 2
        ensures direction == Direction::On ==> r == on_pos(*self, geom_index as int)
    { unimplemented!() }
    #[verifier::external_body]
    pub fn on_position(&self, geom_index: usize) -> (r: Option<CoordPos>)
        requires geom_index < 2
        ensures r == on_pos(*self, geom_index as int)
    { unimplemented!() }
    #[verifier::external_body]
    pub fn set_on_position(&mut self, geom_index: usize, position: CoordPos)
        requires geom_index < 2
        ensures
            on_pos(*final(self), geom_index as int) == Some(position),
            on_pos(*final(self), 1 - geom_index as int) == on_pos(*old(self), 1 - geom_index as int),
    { unimplemented!() }
}

#[verifier::external_body] #[verifier::accept_recursive_types(F)]
pub struct GeometryCow<'a, F: GeoFloat> { _p: core::marker::PhantomData<&'a F> }
#[verifier::external_body] #[verifier::accept_recursive_types(F)]
pub struct Segment<F: GeoFloat> { _p: core::marker::PhantomData<F> }
#[verifier::external_body] #[verifier::accept_recursive_types(T)]
pub struct RTree<T> { _p: core::marker::PhantomData<T> }
#[verifier::external_body] #[verifier::accept_recursive_types(F)]
pub struct PlanarGraph<F: GeoFloat> { _p: core::marker::PhantomData<F> }
impl<'a, F: GeoFloat> Clone for GeometryCow<'a, F> { #[verifier::external_body] fn clone(&self) -> Self { unimplemented!() } }
impl<F: GeoFloat> Clone for PlanarGraph<F> { #[verifier::external_body] fn clone(&self) -> Self { unimplemented!() } }

//@type geo/src/algorithm/relate/geomgraph/node.rs | CoordNode
//@type geo/src/algorithm/relate/geomgraph/geometry_graph.rs | GeometryGraph

pub closed spec fn node_label<F: GeoFloat>(n: CoordNode<F>) -> Label { n.label }
pub closed spec fn graph_arg<'a, F: GeoFloat>(g: GeometryGraph<'a, F>) -> int { g.arg_index as int }
/// label of the node stored at coordinate c in the graph's node map
pub uninterp spec fn label_at<'a, F: GeoFloat>(g: GeometryGraph<'a, F>, c: Coord<F>) -> Label;

impl<F: GeoFloat> CoordNode<F> {
//@fn geo/src/algorithm/relate/geomgraph/node.rs | impl<F: GeoFloat> CoordNode<F> | label_mut | id=C01.V.node_label_mut
//@ret r
//@spec
    ensures *r == node_label(*old(self)), node_label(*final(self)) == *final(r),
//@end

//@fn geo/src/algorithm/relate/geomgraph/node.rs | impl<F> CoordNode<F> where F: GeoFloat, | set_label_boundary | id=C01.V.node_set_label_boundary
//@spec
    requires geom_index < 2
    ensures
        // toggle: boundary -> interior, anything else -> boundary; the other operand untouched
        on_pos(node_label(*final(self)), geom_index as int) == Some(if on_pos(node_label(*old(self)), geom_index as int) == Some(CoordPos::OnBoundary) { CoordPos::Inside } else { CoordPos::OnBoundary }),
        on_pos(node_label(*final(self)), 1 - geom_index as int) == on_pos(node_label(*old(self)), 1 - geom_index as int),
//@end
}

impl<'a, F: GeoFloat> GeometryGraph<'a, F> {
    #[verifier::external_body]
    pub fn add_node_with_coordinate(&mut self, coord: Coord<F>) -> (r: &mut CoordNode<F>)
        ensures
            node_label(*r) == label_at(*old(self), coord),
            label_at(*final(self), coord) == node_label(*final(r)),
            graph_arg(*final(self)) == graph_arg(*old(self)),
    { unimplemented!() }

//@fn geo/src/algorithm/relate/geomgraph/geometry_graph.rs | impl<'a, F> GeometryGraph<'a, F> where F: GeoFloat + RTreeNum, | determine_boundary | id=C01.V.determine_boundary
//@ret r
//@spec
        ensures r == (if boundary_count % 2 == 1 { CoordPos::OnBoundary } else { CoordPos::Inside }),
//@end

//@fn geo/src/algorithm/relate/geomgraph/geometry_graph.rs | impl<'a, F> GeometryGraph<'a, F> where F: GeoFloat + RTreeNum, | insert_boundary_point | id=C01.V.insert_boundary_point
//@spec
        requires graph_arg(*old(self)) < 2,
        ensures
            // mod-2 rule: the node toggles between boundary and interior of the operand being built ...
            on_pos(label_at(*final(self), coord), graph_arg(*old(self))) ==
                Some(if on_pos(label_at(*old(self), coord), graph_arg(*old(self))) == Some(CoordPos::OnBoundary) { CoordPos::Inside } else { CoordPos::OnBoundary }),
            // ... and what is recorded for the other operand is untouched
            on_pos(label_at(*final(self), coord), 1 - graph_arg(*old(self))) == on_pos(label_at(*old(self), coord), 1 - graph_arg(*old(self))),
//@end
}

} // verus!
fn main() {}
