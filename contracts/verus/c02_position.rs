// Unit c02_position: CoordinatePosition for the polygonal types, modular over the ring walk.
// The ring walk `coord_pos_relative_to_ring` is used through its CONTRACT only (proved in unit
// c02_ring against the same spec functions, which are included textually from frag_ring_spec.rs).
//@include prelude_scalar.rs
//@include prelude_std.rs
//@include prelude_types.rs
//@include prelude_geo.rs
//@include frag_polygon_access.rs
//@include frag_rect_access.rs
//@include frag_ring_spec.rs
verus! {

/// contract of the ring walk (proved in unit c02_ring: obligation C02.V.coord_pos_relative_to_ring)
#[verifier::external_body]
pub fn coord_pos_relative_to_ring<T>(coord: Coord<T>, linestring: &LineString<T>) -> (r: CoordPos)
where
    T: GeoNum,
    requires
        closed(linestring.0@),
        linestring.0@.len() < 0x7fff_ffff,
    ensures
        r == ring_pos(pt(coord), linestring.0@),
{ unimplemented!() }

// ------------------------------------------------------------------ HasDimensions::is_empty (fragment)
pub trait HasDimensions {
    spec fn is_empty_spec(&self) -> bool;
    fn is_empty(&self) -> (r: bool)
        ensures r == self.is_empty_spec();
}
impl<C: CoordNum> HasDimensions for LineString<C> {
    open spec fn is_empty_spec(&self) -> bool { self.0@.len() == 0 }
//@fn geo/src/algorithm/dimensions.rs | impl<C: CoordNum> HasDimensions for LineString<C> | is_empty | id=C02.V.ls_is_empty
//@end
}
impl<C: CoordNum> HasDimensions for Polygon<C> {
    open spec fn is_empty_spec(&self) -> bool { ext(*self).len() == 0 }
//@fn geo/src/algorithm/dimensions.rs | impl<C: CoordNum> HasDimensions for Polygon<C> | is_empty | id=C02.V.polygon_is_empty
//@end
}

// ------------------------------------------------------------------ polygon point-set semantics
/// some hole has p in its interior / on its boundary
pub open spec fn in_some_hole<T: CoordNum>(p: P2, holes: Seq<LineString<T>>) -> bool {
    exists|i: int| 0 <= i < holes.len() && #[trigger] ring_pos(p, holes[i].0@) == CoordPos::Inside
}
pub open spec fn on_some_hole<T: CoordNum>(p: P2, holes: Seq<LineString<T>>) -> bool {
    exists|i: int| 0 <= i < holes.len() && #[trigger] ring_pos(p, holes[i].0@) == CoordPos::OnBoundary
}
/// OGC polygon: interior = inside the shell and outside every hole; boundary = the rings
pub open spec fn poly_pos<T: CoordNum>(p: P2, poly: Polygon<T>) -> CoordPos {
    let e = ring_pos(p, ext(poly));
    if e == CoordPos::Outside { CoordPos::Outside }
    else if e == CoordPos::OnBoundary { CoordPos::OnBoundary }
    else if on_some_hole(p, ints(poly)) { CoordPos::OnBoundary }
    else if in_some_hole(p, ints(poly)) { CoordPos::Outside }
    else { CoordPos::Inside }
}
/// pointwise consequence of validity (hole interiors are disjoint and holes do not cross):
/// no point is inside one hole and on / inside another
pub open spec fn holes_separate_at<T: CoordNum>(p: P2, holes: Seq<LineString<T>>) -> bool {
    forall|i: int, j: int| 0 <= i < holes.len() && 0 <= j < holes.len() && i != j
        && #[trigger] ring_pos(p, holes[i].0@) == CoordPos::Inside ==> #[trigger] ring_pos(p, holes[j].0@) == CoordPos::Outside
}

// ------------------------------------------------------------------ the trait and its contract
pub trait CoordinatePosition {
    type Scalar: GeoNum;
    /// p is in the interior of (a component of) self
    spec fn interior_has(&self, p: P2) -> bool;
    /// number of components of self whose boundary contains p
    spec fn boundary_hits(&self, p: P2) -> nat;
    /// validity-type precondition of the implementation at p
    spec fn pos_pre(&self, p: P2) -> bool;

//@fn geo/src/algorithm/coordinate_position.rs | trait CoordinatePosition | coordinate_position | id=C02.V.coordinate_position
//@ret r
//@spec
        requires self.pos_pre(pt(*coord)), self.boundary_hits(pt(*coord)) <= usize::MAX,
        ensures
            // OGC SFA 6.1.15.1 "mod 2" union rule, then any-interior
            r == (if self.boundary_hits(pt(*coord)) % 2 == 1 { CoordPos::OnBoundary }
                  else if self.interior_has(pt(*coord)) { CoordPos::Inside } else { CoordPos::Outside }),
//@end

    fn calculate_coordinate_position(&self, coord: &Coord<Self::Scalar>, is_inside: &mut bool, boundary_count: &mut usize)
        requires
            self.pos_pre(pt(*coord)),
            *old(boundary_count) + self.boundary_hits(pt(*coord)) <= usize::MAX,
        ensures
            *final(is_inside) == (*old(is_inside) || self.interior_has(pt(*coord))),
            *final(boundary_count) == *old(boundary_count) + self.boundary_hits(pt(*coord)),
    ;
}

impl<T> CoordinatePosition for Polygon<T>
where
    T: GeoNum,
{
    type Scalar = T;
    open spec fn interior_has(&self, p: P2) -> bool { poly_pos(p, *self) == CoordPos::Inside }
    open spec fn boundary_hits(&self, p: P2) -> nat { if poly_pos(p, *self) == CoordPos::OnBoundary { 1 } else { 0 } }
    open spec fn pos_pre(&self, p: P2) -> bool {
        wf_polygon(*self) && holes_separate_at(p, ints(*self))
        && ext(*self).len() < 0x7fff_ffff
        && forall|i: int| 0 <= i < ints(*self).len() ==> (#[trigger] ints(*self)[i]).0@.len() < 0x7fff_ffff
    }
//@fn geo/src/algorithm/coordinate_position.rs | impl<T> CoordinatePosition for Polygon<T> where T: GeoNum, | calculate_coordinate_position | id=C02.V.polygon_position
//@loop 1 it
                    invariant
                        wf_polygon(*self), holes_separate_at(pt(*coord), ints(*self)),
                        forall|i: int| 0 <= i < ints(*self).len() ==> (#[trigger] ints(*self)[i]).0@.len() < 0x7fff_ffff,
                        forall|j: int| 0 <= j < it.index@ ==> ring_pos(pt(*coord), (#[trigger] ints(*self)[j]).0@) == CoordPos::Outside,
                        ring_pos(pt(*coord), ext(*self)) == CoordPos::Inside,
                        *is_inside == *old(is_inside), *boundary_count == *old(boundary_count),
                        *old(boundary_count) + self.boundary_hits(pt(*coord)) <= usize::MAX,
//@end
}

impl<T> CoordinatePosition for Rect<T>
where
    T: GeoNum,
{
    type Scalar = T;
    // closed rectangle; interior by strict inequalities, boundary otherwise (a rect that is degenerate in an
    // axis is all boundary)
    open spec fn interior_has(&self, p: P2) -> bool {
        rmin(*self).x.val() < p.x && p.x < rmax(*self).x.val() && rmin(*self).y.val() < p.y && p.y < rmax(*self).y.val()
    }
    open spec fn boundary_hits(&self, p: P2) -> nat {
        if rmin(*self).x.val() <= p.x && p.x <= rmax(*self).x.val() && rmin(*self).y.val() <= p.y && p.y <= rmax(*self).y.val()
            && !self.interior_has(p) { 1 } else { 0 }
    }
    open spec fn pos_pre(&self, p: P2) -> bool { true }
//@fn geo/src/algorithm/coordinate_position.rs | impl<T> CoordinatePosition for Rect<T> where T: GeoNum, | calculate_coordinate_position | id=C02.V.rect_position
//@entry
        proof { T::ax_obeys(); T::ax_order(); }
//@end
}

impl<T> CoordinatePosition for Coord<T>
where
    T: GeoNum,
{
    type Scalar = T;
    open spec fn interior_has(&self, p: P2) -> bool { pt(*self) == p }
    open spec fn boundary_hits(&self, p: P2) -> nat { 0 }
    open spec fn pos_pre(&self, p: P2) -> bool { true }
//@fn geo/src/algorithm/coordinate_position.rs | impl<T> CoordinatePosition for Coord<T> where T: GeoNum, | calculate_coordinate_position | id=C02.V.coord_position
//@entry
        proof { T::ax_obeys(); T::ax_order(); }
//@end
}

// ------------------------------------------------------------------ Line
/// contract of `Line: Intersects<Coord>` (proved in unit c02_intersects: obligation C02.V.line_intersects_coord)
pub trait Intersects<Rhs = Self> {
    spec fn meets(&self, rhs: &Rhs) -> bool;
    spec fn meets_pre(&self, rhs: &Rhs) -> bool;
    fn intersects(&self, rhs: &Rhs) -> (r: bool)
        requires self.meets_pre(rhs)
        ensures r == self.meets(rhs);
}
impl<T> Intersects<Coord<T>> for Line<T>
where
    T: GeoNum,
{
    open spec fn meets(&self, rhs: &Coord<T>) -> bool { on_segment(pt(*rhs), pt(self.start), pt(self.end)) }
    open spec fn meets_pre(&self, rhs: &Coord<T>) -> bool { true }
    #[verifier::external_body]
    fn intersects(&self, rhs: &Coord<T>) -> (r: bool) { unimplemented!() }
}

impl<T> CoordinatePosition for Line<T>
where
    T: GeoNum,
{
    type Scalar = T;
    // OGC: the boundary of a line is its two end points; a degenerate line is a point (no boundary)
    open spec fn interior_has(&self, p: P2) -> bool {
        if pt(self.start) == pt(self.end) { p == pt(self.start) }
        else { on_segment(p, pt(self.start), pt(self.end)) && p != pt(self.start) && p != pt(self.end) }
    }
    open spec fn boundary_hits(&self, p: P2) -> nat {
        if pt(self.start) != pt(self.end) && (p == pt(self.start) || p == pt(self.end)) { 1 } else { 0 }
    }
    open spec fn pos_pre(&self, p: P2) -> bool { true }
//@fn geo/src/algorithm/coordinate_position.rs | impl<T> CoordinatePosition for Line<T> where T: GeoNum, | calculate_coordinate_position | id=C02.V.line_position
//@entry
        proof {
            T::ax_obeys();
            T::ax_order(); T::ax_cmp(self.start.x, self.end.x); T::ax_cmp(self.start.y, self.end.y);
            T::ax_cmp(coord.x, self.start.x); T::ax_cmp(coord.y, self.start.y);
            T::ax_cmp(coord.x, self.end.x); T::ax_cmp(coord.y, self.end.y);
            T::ax_cmp(self.start.x, coord.x); T::ax_cmp(self.start.y, coord.y);
            assert(cross(pt(self.start), pt(self.end), pt(self.start)) == 0) by (nonlinear_arith);
            assert(cross(pt(self.start), pt(self.end), pt(self.end)) == 0) by (nonlinear_arith);
        }
//@end
}

// (the extracted body imports these names from their module path in geo)
pub mod coordinate_position { pub use super::{CoordPos, CoordinatePosition}; }

// ------------------------------------------------------------------ Polygon x Coord through the position
impl<T> Intersects<Coord<T>> for Polygon<T>
where
    T: GeoNum,
{
    /// not FF*FF****: the coordinate is in the interior or on the boundary of the polygon
    open spec fn meets(&self, p: &Coord<T>) -> bool { poly_pos(pt(*p), *self) != CoordPos::Outside }
    open spec fn meets_pre(&self, p: &Coord<T>) -> bool { self.pos_pre(pt(*p)) }
//@fn geo/src/algorithm/intersects/polygon.rs | impl<T> Intersects<Coord<T>> for Polygon<T> where T: GeoNum, | intersects | id=C02.V.polygon_intersects_coord
//@end
}

pub trait Contains<Rhs = Self> {
    spec fn holds(&self, rhs: &Rhs) -> bool;
    spec fn holds_pre(&self, rhs: &Rhs) -> bool;
    fn contains(&self, rhs: &Rhs) -> (r: bool)
        requires self.holds_pre(rhs)
        ensures r == self.holds(rhs);
}
impl<T> Contains<Coord<T>> for Polygon<T>
where
    T: GeoNum,
{
    /// T*****FF*: the coordinate is in the interior of the polygon
    open spec fn holds(&self, coord: &Coord<T>) -> bool { poly_pos(pt(*coord), *self) == CoordPos::Inside }
    open spec fn holds_pre(&self, coord: &Coord<T>) -> bool { self.pos_pre(pt(*coord)) }
//@fn geo/src/algorithm/contains/polygon.rs | impl<T> Contains<Coord<T>> for Polygon<T> where T: GeoNum, | contains | id=C02.V.polygon_contains_coord
//@end
}

// ------------------------------------------------------------------ LineString (OGC: boundary = the two end points unless closed)
pub open spec fn on_ls<T: CoordNum>(p: P2, s: Seq<Coord<T>>) -> bool {
    exists|k: int| 0 <= k < s.len() - 1 && #[trigger] on_seg_k(p, s, k)
}
pub open spec fn in_rect<T: CoordNum>(p: P2, r: Rect<T>) -> bool {
    rmin(r).x.val() <= p.x && p.x <= rmax(r).x.val() && rmin(r).y.val() <= p.y && p.y <= rmax(r).y.val()
}

/// ASSUMED contracts of the callees (each decided elsewhere on bounded / lattice domains: c19 bounding boxes,
/// c02_intersects Rect x Coord (proved), K harness c02_k_linestring_pos for LineString x Coord)
pub trait BoundingRect<T: CoordNum> {
    type Output;
    fn bounding_rect(&self) -> Self::Output;
}
impl<T: CoordNum> BoundingRect<T> for LineString<T> {
    type Output = Option<Rect<T>>;
    #[verifier::external_body]
    fn bounding_rect(&self) -> (r: Option<Rect<T>>)
        ensures
            self.0@.len() > 0 ==> r is Some,
            r is Some ==> forall|i: int| 0 <= i < self.0@.len() ==> in_rect(pt(#[trigger] self.0@[i]), r->0),
    { unimplemented!() }
}
impl<T> Intersects<Coord<T>> for Rect<T>
where
    T: GeoNum,
{
    open spec fn meets(&self, rhs: &Coord<T>) -> bool { in_rect(pt(*rhs), *self) }
    open spec fn meets_pre(&self, rhs: &Coord<T>) -> bool { true }
    #[verifier::external_body]
    fn intersects(&self, rhs: &Coord<T>) -> (r: bool) { unimplemented!() }
}
impl<T> Intersects<Coord<T>> for LineString<T>
where
    T: GeoNum,
{
    open spec fn meets(&self, rhs: &Coord<T>) -> bool { on_ls(pt(*rhs), self.0@) }
    open spec fn meets_pre(&self, rhs: &Coord<T>) -> bool { true }
    #[verifier::external_body]
    fn intersects(&self, rhs: &Coord<T>) -> (r: bool) { unimplemented!() }
}
impl<T: CoordNum> LineString<T> {
//@fn geo-types/src/geometry/line_string.rs | impl<T: CoordNum> LineString<T> | is_closed | id=C18.V.is_closed | props=C18
//@ret r
//@spec
    ensures r == closed(self.0@),
//@entry
    proof {
        T::ax_obeys();
        if self.0@.len() > 0 {
            T::ax_order(); T::ax_cmp(self.0@[0].x, self.0@.last().x);
            T::ax_cmp(self.0@[0].y, self.0@.last().y);
        }
    }
//@end
}
impl<T: CoordNum> Line<T> {
//@fn geo-types/src/geometry/line.rs | impl<T: CoordNum> Line<T> | new | id=C18.V.line_new | props=C18
//@ret r
//@spec
    requires forall|c: C| call_requires(C::into, (c,)),
    ensures call_ensures(C::into, (start,), r.start), call_ensures(C::into, (end,), r.end),
//@end
}

/// a point on a segment whose end points are inside a rectangle is inside the rectangle
proof fn lemma_on_segment_in_rect<T: CoordNum>(p: P2, a: P2, b: P2, r: Rect<T>)
    requires on_segment(p, a, b), in_rect(a, r), in_rect(b, r)
    ensures in_rect(p, r)
{
}

impl<T> CoordinatePosition for LineString<T>
where
    T: GeoNum,
{
    type Scalar = T;
    open spec fn boundary_hits(&self, p: P2) -> nat {
        if !closed(self.0@) && (p == pt(self.0@[0]) || p == pt(self.0@.last())) { 1 } else { 0 }
    }
    open spec fn interior_has(&self, p: P2) -> bool {
        on_ls(p, self.0@) && self.boundary_hits(p) == 0
    }
    /// at least two coordinates (the code's own debug_assert!)
    open spec fn pos_pre(&self, p: P2) -> bool { self.0@.len() >= 2 }
//@fn geo/src/algorithm/coordinate_position.rs | impl<T> CoordinatePosition for LineString<T> where T: GeoNum, | calculate_coordinate_position | id=C02.V.linestring_position
//@entry
        proof {
            T::ax_obeys();
            let s = self.0@;
            let p = pt(*coord);
            T::ax_order(); T::ax_cmp(coord.x, s[0].x); T::ax_cmp(coord.y, s[0].y);
            T::ax_cmp(coord.x, s.last().x); T::ax_cmp(coord.y, s.last().y);
            T::ax_cmp(s[0].x, s.last().x); T::ax_cmp(s[0].y, s.last().y);
            // an end point of the line string lies on its first / last segment
            assert(cross(pt(s[0]), pt(s[1]), pt(s[0])) == 0) by (nonlinear_arith);
            assert(on_seg_k(pt(s[0]), s, 0));
            let n = s.len() as int;
            assert(cross(pt(s[n - 2]), pt(s[n - 1]), pt(s[n - 1])) == 0) by (nonlinear_arith);
            assert(on_seg_k(pt(s[n - 1]), s, n - 2));
            if n == 2 {
                // two coordinates: the line string is the single segment 0
                assert(on_ls(p, s) == on_seg_k(p, s, 0)) by {
                    if on_ls(p, s) { let k = choose|k: int| 0 <= k < s.len() - 1 && #[trigger] on_seg_k(p, s, k); assert(k == 0); }
                }
                if pt(s[0]) == pt(s[1]) {
                    assert(on_segment(p, pt(s[0]), pt(s[1])) == (p == pt(s[0]))) by {
                        assert(cross(pt(s[0]), pt(s[0]), p) == 0) by (nonlinear_arith);
                    }
                }
            }
        }
//@before 1 `if !self.bounding_rect().unwrap().intersects(coord) {`
        proof {
            let s = self.0@;
            let p = pt(*coord);
            // outside the bounding rectangle: on no segment
            assert forall|r: Rect<T>| (forall|i: int| 0 <= i < s.len() ==> in_rect(pt(#[trigger] s[i]), r)) && !in_rect(p, r) implies !on_ls(p, s) by {
                if on_ls(p, s) {
                    let k = choose|k: int| 0 <= k < s.len() - 1 && #[trigger] on_seg_k(p, s, k);
                    assert(in_rect(pt(s[k]), r) && in_rect(pt(s[k + 1]), r));
                    lemma_on_segment_in_rect(p, pt(s[k]), pt(s[k + 1]), r);
                }
            }
        }
//@end
}

// ------------------------------------------------------------------ Multi*: the accumulate protocol over the members
//@type geo-types/src/geometry/multi_polygon.rs | MultiPolygon
//@type geo-types/src/geometry/multi_line_string.rs | MultiLineString

/// number of the first k members whose boundary contains p
pub open spec fn hits_upto<G: CoordinatePosition>(v: Seq<G>, p: P2, k: int) -> nat
    decreases k
{
    if k <= 0 { 0 } else { hits_upto(v, p, k - 1) + v[k - 1].boundary_hits(p) }
}
pub open spec fn some_interior_upto<G: CoordinatePosition>(v: Seq<G>, p: P2, k: int) -> bool {
    exists|i: int| 0 <= i < k && #[trigger] v[i].interior_has(p)
}
pub open spec fn all_pre<G: CoordinatePosition>(v: Seq<G>, p: P2) -> bool {
    forall|i: int| 0 <= i < v.len() ==> (#[trigger] v[i]).pos_pre(p)
}
proof fn lemma_hits_monotone<G: CoordinatePosition>(v: Seq<G>, p: P2, j: int, k: int)
    requires 0 <= j <= k
    ensures hits_upto(v, p, j) <= hits_upto(v, p, k)
    decreases k
{
    if j < k { lemma_hits_monotone(v, p, j, k - 1); }
}

impl<T> CoordinatePosition for MultiPolygon<T>
where
    T: GeoNum,
{
    type Scalar = T;
    // the members are folded with the accumulate protocol: any member's interior; boundary hits are COUNTED
    // (the mod-2 rule of the default method is then applied to the count -- see known finding D8 for what that
    // means for polygons touching at a point)
    open spec fn interior_has(&self, p: P2) -> bool { some_interior_upto(self.0@, p, self.0@.len() as int) }
    open spec fn boundary_hits(&self, p: P2) -> nat { hits_upto(self.0@, p, self.0@.len() as int) }
    open spec fn pos_pre(&self, p: P2) -> bool { all_pre(self.0@, p) }
//@fn geo/src/algorithm/coordinate_position.rs | impl<T> CoordinatePosition for MultiPolygon<T> where T: GeoNum, | calculate_coordinate_position | id=C02.V.multipolygon_position
//@loop 1 it
            invariant
                all_pre(self.0@, pt(*coord)),
                it.snapshot@.remaining().len() == self.0@.len(),
                forall|i: int| 0 <= i < self.0@.len() ==> *(#[trigger] it.snapshot@.remaining()[i]) == self.0@[i],
                *old(boundary_count) + hits_upto(self.0@, pt(*coord), self.0@.len() as int) <= usize::MAX,
                *is_inside == (*old(is_inside) || some_interior_upto(self.0@, pt(*coord), it.index@)),
                *boundary_count == *old(boundary_count) + hits_upto(self.0@, pt(*coord), it.index@),
//@loopentry 1
            proof {
                let k = it.index@;
                assert(*polygon == self.0@[k]);
                lemma_hits_monotone(self.0@, pt(*coord), k + 1, self.0@.len() as int);
            }
//@end
}

impl<T> CoordinatePosition for MultiLineString<T>
where
    T: GeoNum,
{
    type Scalar = T;
    open spec fn interior_has(&self, p: P2) -> bool { some_interior_upto(self.0@, p, self.0@.len() as int) }
    open spec fn boundary_hits(&self, p: P2) -> nat { hits_upto(self.0@, p, self.0@.len() as int) }
    open spec fn pos_pre(&self, p: P2) -> bool { all_pre(self.0@, p) }
//@fn geo/src/algorithm/coordinate_position.rs | impl<T> CoordinatePosition for MultiLineString<T> where T: GeoNum, | calculate_coordinate_position | id=C02.V.multilinestring_position
//@loop 1 it
            invariant
                all_pre(self.0@, pt(*coord)),
                it.snapshot@.remaining().len() == self.0@.len(),
                forall|i: int| 0 <= i < self.0@.len() ==> *(#[trigger] it.snapshot@.remaining()[i]) == self.0@[i],
                *old(boundary_count) + hits_upto(self.0@, pt(*coord), self.0@.len() as int) <= usize::MAX,
                *is_inside == (*old(is_inside) || some_interior_upto(self.0@, pt(*coord), it.index@)),
                *boundary_count == *old(boundary_count) + hits_upto(self.0@, pt(*coord), it.index@),
//@loopentry 1
            proof {
                let k = it.index@;
                assert(*line_string == self.0@[k]);
                lemma_hits_monotone(self.0@, pt(*coord), k + 1, self.0@.len() as int);
            }
//@end
}

} // verus!
fn main() {}
