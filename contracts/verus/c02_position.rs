// Unit c02_position: CoordinatePosition for the polygonal types, modular over the ring walk.
// The ring walk `coord_pos_relative_to_ring` is used through its CONTRACT only (proved in unit
// c02_ring against the same spec functions, which are included textually from frag_ring_spec.rs).
//@include prelude_scalar.rs
//@include prelude_std.rs
//@include prelude_types.rs
//@include prelude_geo.rs
//@include frag_polygon_access.rs
//@include frag_rect_access.rs
//@include frag_ring_spec.rs
verus! {

/// contract of the ring walk (proved in unit c02_ring: obligation C02.V.coord_pos_relative_to_ring)
#[verifier::external_body]
pub fn coord_pos_relative_to_ring<T>(coord: Coord<T>, linestring: &LineString<T>) -> (r: CoordPos)
where
    T: GeoNum,
    requires
        closed(linestring.0@),
        linestring.0@.len() < 0x7fff_ffff,
    ensures
        r == ring_pos(pt(coord), linestring.0@),
{ unimplemented!() }

// ------------------------------------------------------------------ HasDimensions::is_empty (fragment)
pub trait HasDimensions {
    spec fn is_empty_spec(&self) -> bool;
    fn is_empty(&self) -> (r: bool)
        ensures r == self.is_empty_spec();
}
impl<C: CoordNum> HasDimensions for LineString<C> {
    open spec fn is_empty_spec(&self) -> bool { self.0@.len() == 0 }
//@fn geo/src/algorithm/dimensions.rs | impl<C: CoordNum> HasDimensions for LineString<C> | is_empty | id=C02.V.ls_is_empty
//@end
}
impl<C: CoordNum> HasDimensions for Polygon<C> {
    open spec fn is_empty_spec(&self) -> bool { ext(*self).len() == 0 }
//@fn geo/src/algorithm/dimensions.rs | impl<C: CoordNum> HasDimensions for Polygon<C> | is_empty | id=C02.V.polygon_is_empty
//@end
}

// ------------------------------------------------------------------ polygon point-set semantics
/// some hole has p in its interior / on its boundary
pub open spec fn in_some_hole<T: CoordNum>(p: P2, holes: Seq<LineString<T>>) -> bool {
    exists|i: int| 0 <= i < holes.len() && #[trigger] ring_pos(p, holes[i].0@) == CoordPos::Inside
}
pub open spec fn on_some_hole<T: CoordNum>(p: P2, holes: Seq<LineString<T>>) -> bool {
    exists|i: int| 0 <= i < holes.len() && #[trigger] ring_pos(p, holes[i].0@) == CoordPos::OnBoundary
}
/// OGC polygon: interior = inside the shell and outside every hole; boundary = the rings
pub open spec fn poly_pos<T: CoordNum>(p: P2, poly: Polygon<T>) -> CoordPos {
    let e = ring_pos(p, ext(poly));
    if e == CoordPos::Outside { CoordPos::Outside }
    else if e == CoordPos::OnBoundary { CoordPos::OnBoundary }
    else if on_some_hole(p, ints(poly)) { CoordPos::OnBoundary }
    else if in_some_hole(p, ints(poly)) { CoordPos::Outside }
    else { CoordPos::Inside }
}
/// pointwise consequence of validity (hole interiors are disjoint and holes do not cross):
/// no point is inside one hole and on / inside another
pub open spec fn holes_separate_at<T: CoordNum>(p: P2, holes: Seq<LineString<T>>) -> bool {
    forall|i: int, j: int| 0 <= i < holes.len() && 0 <= j < holes.len() && i != j
        && #[trigger] ring_pos(p, holes[i].0@) == CoordPos::Inside ==> #[trigger] ring_pos(p, holes[j].0@) == CoordPos::Outside
}

// ------------------------------------------------------------------ the trait and its contract
pub trait CoordinatePosition {
    type Scalar: GeoNum;
    /// p is in the interior of (a component of) self
    spec fn interior_has(&self, p: P2) -> bool;
    /// number of components of self whose boundary contains p
    spec fn boundary_hits(&self, p: P2) -> nat;
    /// validity-type precondition of the implementation at p
    spec fn pos_pre(&self, p: P2) -> bool;

//@fn geo/src/algorithm/coordinate_position.rs | trait CoordinatePosition | coordinate_position | id=C02.V.coordinate_position
//@ret r
//@spec
        requires self.pos_pre(pt(*coord)), self.boundary_hits(pt(*coord)) <= usize::MAX,
        ensures
            // OGC SFA 6.1.15.1 "mod 2" union rule, then any-interior
            r == (if self.boundary_hits(pt(*coord)) % 2 == 1 { CoordPos::OnBoundary }
                  else if self.interior_has(pt(*coord)) { CoordPos::Inside } else { CoordPos::Outside }),
//@end

    fn calculate_coordinate_position(&self, coord: &Coord<Self::Scalar>, is_inside: &mut bool, boundary_count: &mut usize)
        requires
            self.pos_pre(pt(*coord)),
            *old(boundary_count) + self.boundary_hits(pt(*coord)) <= usize::MAX,
        ensures
            *final(is_inside) == (*old(is_inside) || self.interior_has(pt(*coord))),
            *final(boundary_count) == *old(boundary_count) + self.boundary_hits(pt(*coord)),
    ;
}

impl<T> CoordinatePosition for Polygon<T>
where
    T: GeoNum,
{
    type Scalar = T;
    open spec fn interior_has(&self, p: P2) -> bool { poly_pos(p, *self) == CoordPos::Inside }
    open spec fn boundary_hits(&self, p: P2) -> nat { if poly_pos(p, *self) == CoordPos::OnBoundary { 1 } else { 0 } }
    open spec fn pos_pre(&self, p: P2) -> bool {
        wf_polygon(*self) && holes_separate_at(p, ints(*self))
        && ext(*self).len() < 0x7fff_ffff
        && forall|i: int| 0 <= i < ints(*self).len() ==> (#[trigger] ints(*self)[i]).0@.len() < 0x7fff_ffff
    }
//@fn geo/src/algorithm/coordinate_position.rs | impl<T> CoordinatePosition for Polygon<T> where T: GeoNum, | calculate_coordinate_position | id=C02.V.polygon_position
//@loop 1 it
                    invariant
                        wf_polygon(*self), holes_separate_at(pt(*coord), ints(*self)),
                        forall|i: int| 0 <= i < ints(*self).len() ==> (#[trigger] ints(*self)[i]).0@.len() < 0x7fff_ffff,
                        forall|j: int| 0 <= j < it.index@ ==> ring_pos(pt(*coord), (#[trigger] ints(*self)[j]).0@) == CoordPos::Outside,
                        ring_pos(pt(*coord), ext(*self)) == CoordPos::Inside,
                        *is_inside == *old(is_inside), *boundary_count == *old(boundary_count),
                        *old(boundary_count) + self.boundary_hits(pt(*coord)) <= usize::MAX,
//@end
}

impl<T> CoordinatePosition for Rect<T>
where
    T: GeoNum,
{
    type Scalar = T;
    // closed rectangle; interior by strict inequalities, boundary otherwise (a rect that is degenerate in an
    // axis is all boundary)
    open spec fn interior_has(&self, p: P2) -> bool {
        rmin(*self).x.val() < p.x && p.x < rmax(*self).x.val() && rmin(*self).y.val() < p.y && p.y < rmax(*self).y.val()
    }
    open spec fn boundary_hits(&self, p: P2) -> nat {
        if rmin(*self).x.val() <= p.x && p.x <= rmax(*self).x.val() && rmin(*self).y.val() <= p.y && p.y <= rmax(*self).y.val()
            && !self.interior_has(p) { 1 } else { 0 }
    }
    open spec fn pos_pre(&self, p: P2) -> bool { true }
//@fn geo/src/algorithm/coordinate_position.rs | impl<T> CoordinatePosition for Rect<T> where T: GeoNum, | calculate_coordinate_position | id=C02.V.rect_position
//@before 1 `let mut boundary = false;`
        proof {
            T::ax_obeys();
            T::ax_cmp(coord.x, self.min.x); T::ax_cmp(coord.y, self.min.y);
            T::ax_cmp(self.max.x, coord.x); T::ax_cmp(self.max.y, coord.y);
        }
//@end
}

impl<T> CoordinatePosition for Coord<T>
where
    T: GeoNum,
{
    type Scalar = T;
    open spec fn interior_has(&self, p: P2) -> bool { pt(*self) == p }
    open spec fn boundary_hits(&self, p: P2) -> nat { 0 }
    open spec fn pos_pre(&self, p: P2) -> bool { true }
//@fn geo/src/algorithm/coordinate_position.rs | impl<T> CoordinatePosition for Coord<T> where T: GeoNum, | calculate_coordinate_position | id=C02.V.coord_position
//@before 1 `if self == coord {`
        proof { T::ax_obeys(); T::ax_cmp(self.x, coord.x); T::ax_cmp(self.y, coord.y); }
//@end
}

// ------------------------------------------------------------------ Line
/// contract of `Line: Intersects<Coord>` (proved in unit c02_intersects: obligation C02.V.line_intersects_coord)
pub trait Intersects<Rhs = Self> {
    spec fn meets(&self, rhs: &Rhs) -> bool;
    fn intersects(&self, rhs: &Rhs) -> (r: bool)
        ensures r == self.meets(rhs);
}
impl<T> Intersects<Coord<T>> for Line<T>
where
    T: GeoNum,
{
    open spec fn meets(&self, rhs: &Coord<T>) -> bool { on_segment(pt(*rhs), pt(self.start), pt(self.end)) }
    #[verifier::external_body]
    fn intersects(&self, rhs: &Coord<T>) -> (r: bool) { unimplemented!() }
}

impl<T> CoordinatePosition for Line<T>
where
    T: GeoNum,
{
    type Scalar = T;
    // OGC: the boundary of a line is its two end points; a degenerate line is a point (no boundary)
    open spec fn interior_has(&self, p: P2) -> bool {
        if pt(self.start) == pt(self.end) { p == pt(self.start) }
        else { on_segment(p, pt(self.start), pt(self.end)) && p != pt(self.start) && p != pt(self.end) }
    }
    open spec fn boundary_hits(&self, p: P2) -> nat {
        if pt(self.start) != pt(self.end) && (p == pt(self.start) || p == pt(self.end)) { 1 } else { 0 }
    }
    open spec fn pos_pre(&self, p: P2) -> bool { true }
//@fn geo/src/algorithm/coordinate_position.rs | impl<T> CoordinatePosition for Line<T> where T: GeoNum, | calculate_coordinate_position | id=C02.V.line_position
//@before 1 `if self.start == self.end {`
        proof {
            T::ax_obeys();
            T::ax_cmp(self.start.x, self.end.x); T::ax_cmp(self.start.y, self.end.y);
            T::ax_cmp(coord.x, self.start.x); T::ax_cmp(coord.y, self.start.y);
            T::ax_cmp(coord.x, self.end.x); T::ax_cmp(coord.y, self.end.y);
            T::ax_cmp(self.start.x, coord.x); T::ax_cmp(self.start.y, coord.y);
            assert(cross(pt(self.start), pt(self.end), pt(self.start)) == 0) by (nonlinear_arith);
            assert(cross(pt(self.start), pt(self.end), pt(self.end)) == 0) by (nonlinear_arith);
        }
//@end
}

} // verus!
fn main() {}
