// ======================================================================================
// prelude_types.rs -- geo-types data definitions, extracted from /repo on every run,
// plus the abstract views used by all units.
// ASSUMPTION: the *derived* PartialEq impls of Coord / LineString compare field by field
// (Verus does not verify derived impls; the spec below states what the derive generates).
// ======================================================================================
verus! {

//@type geo-types/src/geometry/coord.rs | Coord
impl<T: CoordNum> vstd::std_specs::cmp::PartialEqSpecImpl for Coord<T> {
    open spec fn obeys_eq_spec() -> bool { T::obeys_eq_spec() }
    open spec fn eq_spec(&self, other: &Self) -> bool { self.x.eq_spec(&other.x) && self.y.eq_spec(&other.y) }
}

/// coordinate equality as the scalar's `==` sees it
pub open spec fn ceq<T: CoordNum>(a: Coord<T>, b: Coord<T>) -> bool {
    a.x.val() == b.x.val() && a.y.val() == b.y.val()
}

//@type geo-types/src/geometry/line.rs | Line
//@type geo-types/src/geometry/line_string.rs | LineString
//@type geo-types/src/geometry/polygon.rs | Polygon
//@type geo-types/src/geometry/rect.rs | Rect
//@type geo-types/src/geometry/triangle.rs | Triangle

/// a ring is closed when it is empty or its first and last coordinates are equal
pub open spec fn closed<T: CoordNum>(s: Seq<Coord<T>>) -> bool {
    s.len() == 0 || ceq(s[0], s.last())
}

pub open spec fn all_closed<T: CoordNum>(v: Seq<LineString<T>>) -> bool {
    forall|i: int| 0 <= i < v.len() ==> closed(#[trigger] v[i].0@)
}

} // verus!
