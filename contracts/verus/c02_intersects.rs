// Unit c02_intersects: the loop-free `Intersects` kernels against point-set specs, scalar arithmetic
// uninterpreted (properties C02, C03).
//@include prelude_scalar.rs
//@include prelude_std.rs
//@include prelude_types.rs
//@include prelude_geo.rs
//@include frag_rect_access.rs
//@include frag_seg_geometry.rs
verus! {

/// contract of point_in_rect (proved in unit c02_ring: obligation C02.V.point_in_rect)
#[verifier::external_body]
pub fn point_in_rect<T>(value: Coord<T>, bound_1: Coord<T>, bound_2: Coord<T>) -> (r: bool)
where
    T: CoordNum,
    ensures r == (between(value.x.val(), bound_1.x.val(), bound_2.x.val()) && between(value.y.val(), bound_1.y.val(), bound_2.y.val())),
{ unimplemented!() }

pub trait Intersects<Rhs = Self> {
    /// the two point sets share a point
    spec fn meets(&self, rhs: &Rhs) -> bool;
    fn intersects(&self, rhs: &Rhs) -> (r: bool)
        ensures r == self.meets(rhs);
}

impl<T> Intersects<Coord<T>> for Coord<T>
where
    T: CoordNum,
{
    open spec fn meets(&self, rhs: &Coord<T>) -> bool { pt(*self) == pt(*rhs) }
//@fn geo/src/algorithm/intersects/coordinate.rs | impl<T> Intersects<Coord<T>> for Coord<T> where T: CoordNum, | intersects | id=C02.V.coord_intersects_coord
//@entry
        proof { T::ax_obeys(); T::ax_order(); }
//@end
}

impl<T> Intersects<Coord<T>> for Line<T>
where
    T: GeoNum,
{
    open spec fn meets(&self, rhs: &Coord<T>) -> bool { on_segment(pt(*rhs), pt(self.start), pt(self.end)) }
//@fn geo/src/algorithm/intersects/line.rs | impl<T> Intersects<Coord<T>> for Line<T> where T: GeoNum, | intersects | id=C02.V.line_intersects_coord
//@end
}

impl<T> Intersects<Coord<T>> for Rect<T>
where
    T: CoordNum,
{
    open spec fn meets(&self, rhs: &Coord<T>) -> bool {
        rmin(*self).x.val() <= rhs.x.val() && rhs.x.val() <= rmax(*self).x.val() && rmin(*self).y.val() <= rhs.y.val() && rhs.y.val() <= rmax(*self).y.val()
    }
//@fn geo/src/algorithm/intersects/rect.rs | impl<T> Intersects<Coord<T>> for Rect<T> where T: CoordNum, | intersects | id=C02.V.rect_intersects_coord
//@entry
        proof { T::ax_obeys(); T::ax_order(); }
//@end
}

impl<T> Intersects<Rect<T>> for Rect<T>
where
    T: CoordNum,
{
    /// closed rectangles (min <= max in both axes) share a point iff their extents overlap in both axes
    open spec fn meets(&self, other: &Rect<T>) -> bool {
        rmin(*self).x.val() <= rmax(*other).x.val() && rmin(*other).x.val() <= rmax(*self).x.val()
        && rmin(*self).y.val() <= rmax(*other).y.val() && rmin(*other).y.val() <= rmax(*self).y.val()
    }
//@fn geo/src/algorithm/intersects/rect.rs | impl<T> Intersects<Rect<T>> for Rect<T> where T: CoordNum, | intersects | id=C02.V.rect_intersects_rect
//@entry
        proof { T::ax_obeys(); T::ax_order(); }
//@end
}

// ------------------------------------------------------------------ Contains kernels
pub trait Contains<Rhs = Self> {
    /// rhs is inside self in the DE-9IM sense T*****FF* (interiors meet, nothing of rhs in the exterior of self)
    spec fn holds(&self, rhs: &Rhs) -> bool;
    fn contains(&self, rhs: &Rhs) -> (r: bool)
        ensures r == self.holds(rhs);
}

impl<T> Contains<Coord<T>> for Rect<T>
where
    T: CoordNum,
{
    /// interior of the rectangle: strict inequalities
    open spec fn holds(&self, coord: &Coord<T>) -> bool {
        rmin(*self).x.val() < coord.x.val() && coord.x.val() < rmax(*self).x.val() && rmin(*self).y.val() < coord.y.val() && coord.y.val() < rmax(*self).y.val()
    }
//@fn geo/src/algorithm/contains/rect.rs | impl<T> Contains<Coord<T>> for Rect<T> where T: CoordNum, | contains | id=C02.V.rect_contains_coord
//@entry
        proof { T::ax_obeys(); T::ax_order(); }
//@end
}

impl<T> Contains<Rect<T>> for Rect<T>
where
    T: CoordNum,
{
    /// (for non-degenerate rectangles) other is a subset of self
    open spec fn holds(&self, other: &Rect<T>) -> bool {
        rmin(*self).x.val() <= rmin(*other).x.val() && rmax(*other).x.val() <= rmax(*self).x.val()
        && rmin(*self).y.val() <= rmin(*other).y.val() && rmax(*other).y.val() <= rmax(*self).y.val()
    }
//@fn geo/src/algorithm/contains/rect.rs | impl<T> Contains<Rect<T>> for Rect<T> where T: CoordNum, | contains | id=C02.V.rect_contains_rect
//@entry
        proof { T::ax_obeys(); T::ax_order(); }
//@end
}

impl<T> Contains<Coord<T>> for Line<T>
where
    T: GeoNum,
{
    /// interior of a segment = the segment minus its end points; a degenerate line is a single (interior) point
    open spec fn holds(&self, coord: &Coord<T>) -> bool {
        if pt(self.start) == pt(self.end) { pt(*coord) == pt(self.start) }
        else { on_segment(pt(*coord), pt(self.start), pt(self.end)) && pt(*coord) != pt(self.start) && pt(*coord) != pt(self.end) }
    }
//@fn geo/src/algorithm/contains/line.rs | impl<T> Contains<Coord<T>> for Line<T> where T: GeoNum, | contains | id=C02.V.line_contains_coord
//@entry
        proof { T::ax_obeys(); T::ax_order(); }
//@end
}

impl<T> Contains<Line<T>> for Line<T>
where
    T: GeoNum,
{
    /// T*****FF*: every point of `line` on self and the interiors meet -- for a non-degenerate `line` both its end
    /// points on self; a degenerate `line` is a point, which must be in the interior of self
    open spec fn holds(&self, line: &Line<T>) -> bool {
        if pt(line.start) == pt(line.end) {
            if pt(self.start) == pt(self.end) { pt(line.start) == pt(self.start) }
            else { on_segment(pt(line.start), pt(self.start), pt(self.end)) && pt(line.start) != pt(self.start) && pt(line.start) != pt(self.end) }
        } else {
            on_segment(pt(line.start), pt(self.start), pt(self.end)) && on_segment(pt(line.end), pt(self.start), pt(self.end))
        }
    }
//@fn geo/src/algorithm/contains/line.rs | impl<T> Contains<Line<T>> for Line<T> where T: GeoNum, | contains | id=C02.V.line_contains_line
//@entry
        proof { T::ax_obeys(); T::ax_order(); }
//@end
}

// ------------------------------------------------------------------ Rect x Line (closed rectangle vs closed segment)
/// `Line: Intersects<Line>` against the textbook segment test `seg_meet` (frag_seg_geometry.rs), for ANY exact-sign
/// kernel: degenerate self -> point on segment; different orientations of the other's ends -> decided by the mirrored
/// test; all collinear -> one-dimensional box tests (the code tests `self.end` twice and never `self.start`: proved
/// harmless by the 1-D ordering argument)
impl<T> Intersects<Line<T>> for Line<T>
where
    T: GeoNum,
{
    open spec fn meets(&self, line: &Line<T>) -> bool { seg_meet(pt(self.start), pt(self.end), pt(line.start), pt(line.end)) }
//@fn geo/src/algorithm/intersects/line.rs | impl<T> Intersects<Line<T>> for Line<T> where T: GeoNum, | intersects | id=C02.V.line_intersects_line
//@entry
        proof {
            T::ax_obeys(); T::ax_order();
            let (a, b, c, d) = (pt(self.start), pt(self.end), pt(line.start), pt(line.end));
            lemma_ends_on_segment(a, b); lemma_ends_on_segment(c, d);
            lemma_four_crosses(a, b, c, d);
            if a == b {
                // cross(a, a, x) == 0 for every x
                assert(cross(a, b, c) == 0 && cross(a, b, d) == 0) by (nonlinear_arith)
                    requires a == b, cross(a, b, c) == (b.x - a.x) * (c.y - b.y) - (b.y - a.y) * (c.x - b.x), cross(a, b, d) == (b.x - a.x) * (d.y - b.y) - (b.y - a.y) * (d.x - b.x);
            } else {
                if c != d { lemma_rejections_sound(a, b, c, d); }
                if cross(a, b, c) == 0 && cross(a, b, d) == 0 {
                    lemma_collinear_transitive(a, b, c, d);
                    lemma_collinear_1d(a, b, c); lemma_collinear_1d(a, b, d);
                    if c != d { lemma_collinear_1d(c, d, a); lemma_collinear_1d(c, d, b); lemma_collinear_distinct_x(a, b, c, d); }
                }
                if c == d {
                    assert(cross(c, d, a) == 0 && cross(c, d, b) == 0) by (nonlinear_arith)
                        requires c == d, cross(c, d, a) == (d.x - c.x) * (a.y - d.y) - (d.y - c.y) * (a.x - d.x), cross(c, d, b) == (d.x - c.x) * (b.y - d.y) - (d.y - c.y) * (b.x - d.x);
                }
                if !same_strict_side(cross(a, b, c), cross(a, b, d)) && !same_strict_side(cross(c, d, a), cross(c, d, b))
                    && !(cross(a, b, c) == 0 && cross(a, b, d) == 0 && cross(c, d, a) == 0 && cross(c, d, b) == 0) {
                    lemma_touching(a, b, c, d);
                }
            }
        }
//@end
}
impl<T: CoordNum> vstd::std_specs::convert::FromSpecImpl<(T, T)> for Coord<T> {
    open spec fn obeys_from_spec() -> bool { false }
    uninterp spec fn from_spec(v: (T, T)) -> Self;
}
impl<T: CoordNum> From<(T, T)> for Coord<T> {
//@fn geo-types/src/geometry/coord.rs | impl<T: CoordNum> From<(T, T)> for Coord<T> | from | id=C18.V.coord_from_tuple | props=C18
//@ret r
//@spec
    ensures r.x == coords.0, r.y == coords.1,
//@end
}
impl<T: CoordNum> Line<T> {
//@fn geo-types/src/geometry/line.rs | impl<T: CoordNum> Line<T> | new | id=C18.V.line_new | props=C18
//@ret r
//@spec
    requires forall|c: C| call_requires(C::into, (c,)),
    ensures call_ensures(C::into, (start,), r.start), call_ensures(C::into, (end,), r.end),
//@end
}

impl<T> Intersects<Line<T>> for Rect<T>
where
    T: GeoNum,
{
    /// an end point in the closed rectangle, or the segment meets one of the four sides
    open spec fn meets(&self, rhs: &Line<T>) -> bool {
        let (mn, mx) = (pt(rmin(*self)), pt(rmax(*self)));
        let (c1, c3) = (P2 { x: mx.x, y: mn.y }, P2 { x: mn.x, y: mx.y });
        let (a, b) = (pt(rhs.start), pt(rhs.end));
        (mn.x <= a.x && a.x <= mx.x && mn.y <= a.y && a.y <= mx.y) || (mn.x <= b.x && b.x <= mx.x && mn.y <= b.y && b.y <= mx.y)
        || seg_meet(mn, c1, a, b) || seg_meet(c1, mx, a, b) || seg_meet(c3, mx, a, b) || seg_meet(mn, c3, a, b)
    }
//@fn geo/src/algorithm/intersects/rect.rs | impl<T> Intersects<Line<T>> for Rect<T> where T: GeoNum, | intersects | id=C02.V.rect_intersects_line
//@end
}

// ------------------------------------------------------------------ Point as the container
//@type geo-types/src/geometry/point.rs | Point
impl<T: CoordNum> vstd::std_specs::cmp::PartialEqSpecImpl for Point<T> {
    open spec fn obeys_eq_spec() -> bool { T::obeys_eq_spec() }
    open spec fn eq_spec(&self, other: &Self) -> bool { self.0.x.eq_spec(&other.0.x) && self.0.y.eq_spec(&other.0.y) }
}
impl<T> Contains<Coord<T>> for Point<T>
where
    T: CoordNum,
{
    open spec fn holds(&self, coord: &Coord<T>) -> bool { pt(self.0) == pt(*coord) }
//@fn geo/src/algorithm/contains/point.rs | impl<T> Contains<Coord<T>> for Point<T> where T: CoordNum, | contains | id=C02.V.point_contains_coord
//@entry
        proof { T::ax_obeys(); T::ax_order(); }
//@end
}
impl<T> Contains<Line<T>> for Point<T>
where
    T: CoordNum,
{
    /// only a degenerate line (a point) can be inside a point
    open spec fn holds(&self, line: &Line<T>) -> bool { pt(line.start) == pt(line.end) && pt(line.start) == pt(self.0) }
//@fn geo/src/algorithm/contains/point.rs | impl<T> Contains<Line<T>> for Point<T> where T: CoordNum, | contains | id=C02.V.point_contains_line
//@entry
        proof { T::ax_obeys(); T::ax_order(); }
//@end
}

// ------------------------------------------------------------------ the remaining loop-free `Contains` impls of Point, and the
// Point-typed forms that forward to the Coord kernel
impl<T> Contains<Point<T>> for Point<T>
where
    T: CoordNum,
{
    open spec fn holds(&self, p: &Point<T>) -> bool { pt(self.0) == pt(p.0) }
//@fn geo/src/algorithm/contains/point.rs | impl<T> Contains<Point<T>> for Point<T> where T: CoordNum, | contains | id=C02.V.point_contains_point
//@end
}
impl<T> Contains<Rect<T>> for Point<T>
where
    T: CoordNum,
{
    /// only a degenerate rectangle (a point) can be inside a point
    open spec fn holds(&self, rect: &Rect<T>) -> bool { pt(rmin(*rect)) == pt(rmax(*rect)) && pt(rmin(*rect)) == pt(self.0) }
//@fn geo/src/algorithm/contains/point.rs | impl<T> Contains<Rect<T>> for Point<T> where T: CoordNum, | contains | id=C02.V.point_contains_rect
//@entry
        proof { T::ax_obeys(); T::ax_order(); }
//@end
}
impl<T> Contains<Triangle<T>> for Point<T>
where
    T: CoordNum,
{
    /// only a degenerate triangle (three equal vertices) can be inside a point
    open spec fn holds(&self, triangle: &Triangle<T>) -> bool { pt(triangle.0) == pt(triangle.1) && pt(triangle.0) == pt(triangle.2) && pt(triangle.0) == pt(self.0) }
//@fn geo/src/algorithm/contains/point.rs | impl<T> Contains<Triangle<T>> for Point<T> where T: CoordNum, | contains | id=C02.V.point_contains_triangle
//@entry
        proof { T::ax_obeys(); T::ax_order(); }
//@end
}
impl<T> Contains<Point<T>> for Rect<T>
where
    T: CoordNum,
{
    /// the Point form answers what the Coord form answers
    open spec fn holds(&self, p: &Point<T>) -> bool { <Rect<T> as Contains<Coord<T>>>::holds(self, &p.0) }
//@fn geo/src/algorithm/contains/rect.rs | impl<T> Contains<Point<T>> for Rect<T> where T: CoordNum, | contains | id=C02.V.rect_contains_point
//@end
}
impl<T> Contains<Point<T>> for Line<T>
where
    T: GeoNum,
{
    open spec fn holds(&self, p: &Point<T>) -> bool { <Line<T> as Contains<Coord<T>>>::holds(self, &p.0) }
//@fn geo/src/algorithm/contains/line.rs | impl<T> Contains<Point<T>> for Line<T> where T: GeoNum, | contains | id=C02.V.line_contains_point
//@end
}

} // verus!
fn main() {}
