// ======================================================================================
// prelude_scalar.rs -- axiomatised scalar traits (DESIGN §3, device S1).
// ASSUMPTION (listed in evidence): every scalar value is ordered like an integer `val`
// (finite, non-NaN inputs; +0.0 and -0.0 share a val), and the derived PartialEq /
// PartialOrd operators of the scalar agree with that order.
// ======================================================================================
use vstd::prelude::*;
use vstd::std_specs::cmp::PartialEqSpec;
use vstd::std_specs::cmp::PartialOrdSpec;
use core::cmp::Ordering;

verus! {

pub open spec fn int_cmp(a: int, b: int) -> Ordering {
    if a < b { Ordering::Less } else if a == b { Ordering::Equal } else { Ordering::Greater }
}

/// geo_types::CoordNum, comparison fragment.  `val` is an order embedding of the scalar.
pub trait CoordNum: Copy + PartialEq + PartialOrd {
    spec fn val(self) -> int;

    /// the scalar's `==`, `<`, `<=`, `>`, `>=` are those of `val`
    proof fn ax_obeys()
        ensures
            Self::obeys_eq_spec(),
            Self::obeys_partial_cmp_spec(),
            // `==` on core::cmp::Ordering values is equality of the variants (std's derived PartialEq; ASSUMED)
            <Ordering as PartialEqSpec>::obeys_eq_spec(),
            forall|a: Ordering, b: Ordering| #![trigger a.eq_spec(&b)] a.eq_spec(&b) == (a == b),
    ;
    proof fn ax_cmp(a: Self, b: Self)
        ensures
            a.eq_spec(&b) == (a.val() == b.val()),
            a.partial_cmp_spec(&b) == Some(int_cmp(a.val(), b.val())),
    ;
    /// quantified form of ax_cmp (same assumption; instantiated by the comparison terms of the verification
    /// condition, so a proof does not depend on which operand order or operator the code happens to use)
    proof fn ax_order()
        ensures
            forall|a: Self, b: Self| #![trigger a.partial_cmp_spec(&b)] a.partial_cmp_spec(&b) == Some(int_cmp(a.val(), b.val())),
            forall|a: Self, b: Self| #![trigger a.eq_spec(&b)] a.eq_spec(&b) == (a.val() == b.val()),
    ;
}

} // verus!
