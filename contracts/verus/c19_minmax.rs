// Unit c19_minmax: the fold kernel of every bounding box (property C19).
//@include prelude_scalar.rs
//@include prelude_std.rs
//@include prelude_types.rs
//@include frag_rect_access.rs
//@include frag_rect_new.rs
//@include frag_partial_ord.rs
verus! {

//@fn geo-types/src/private_utils.rs | - | get_min_max | id=C19.V.get_min_max
//@ret r
//@spec
    requires T::obeys_partial_cmp_spec(), po_dual::<T>(),
    ensures
        // the running (min, max) pair extended by p
        r == (if pc_gt(p, max) { (min, p) } else if pc_lt(p, min) { (p, max) } else { (min, max) }),
//@end

/// consequence for totally ordered scalars: the result is the componentwise min / max (given min <= max)
pub proof fn lemma_min_max_is_min_max<T: CoordNum>(p: T, min: T, max: T, r: (T, T))
    requires
        min.val() <= max.val(),
        r == (if pc_gt(p, max) { (min, p) } else if pc_lt(p, min) { (p, max) } else { (min, max) }),
    ensures
        r.0.val() == (if p.val() < min.val() { p.val() } else { min.val() }),
        r.1.val() == (if p.val() > max.val() { p.val() } else { max.val() }),
        r.0.val() <= r.1.val(),
{
    T::ax_obeys(); T::ax_cmp(p, max); T::ax_cmp(p, min);
}

//@fn geo/src/utils.rs | - | partial_max | id=C19.V.partial_max
//@ret r
//@spec
    requires T::obeys_partial_cmp_spec(), po_dual::<T>(),
    ensures r == (if pc_gt(a, b) { a } else { b }),
//@end

//@fn geo/src/utils.rs | - | partial_min | id=C19.V.partial_min
//@ret r
//@spec
    requires T::obeys_partial_cmp_spec(), po_dual::<T>(),
    ensures r == (if pc_lt(a, b) { a } else { b }),
//@end

//@fn geo/src/algorithm/bounding_rect.rs | - | bounding_rect_merge | id=C19.V.bounding_rect_merge
//@ret r
//@spec
    requires wf_rect(a), wf_rect(b),
    ensures
        // the smallest rectangle containing both: componentwise min of the mins, max of the maxes
        rmin(r).x.val() == (if rmin(a).x.val() < rmin(b).x.val() { rmin(a).x.val() } else { rmin(b).x.val() }),
        rmin(r).y.val() == (if rmin(a).y.val() < rmin(b).y.val() { rmin(a).y.val() } else { rmin(b).y.val() }),
        rmax(r).x.val() == (if rmax(a).x.val() > rmax(b).x.val() { rmax(a).x.val() } else { rmax(b).x.val() }),
        rmax(r).y.val() == (if rmax(a).y.val() > rmax(b).y.val() { rmax(a).y.val() } else { rmax(b).y.val() }),
//@entry
    proof {
        T::ax_obeys(); lemma_po_dual::<T>();
        T::ax_order(); T::ax_cmp(a.min.x, b.min.x); T::ax_cmp(a.min.y, b.min.y); T::ax_cmp(a.max.x, b.max.x); T::ax_cmp(a.max.y, b.max.y);
    }
//@end

// ------------------------------------------------------------------ bounding_rect of the fixed-size types (loop-free)
//@type geo-types/src/geometry/point.rs | Point
pub open spec fn imin(a: int, b: int) -> int { if a < b { a } else { b } }
pub open spec fn imax(a: int, b: int) -> int { if a > b { a } else { b } }
/// r is the componentwise min / max box of the two coordinates a and b
pub open spec fn box_of_two<T: CoordNum>(r: Rect<T>, a: Coord<T>, b: Coord<T>) -> bool {
    rmin(r).x.val() == imin(a.x.val(), b.x.val()) && rmin(r).y.val() == imin(a.y.val(), b.y.val())
    && rmax(r).x.val() == imax(a.x.val(), b.x.val()) && rmax(r).y.val() == imax(a.y.val(), b.y.val())
}
pub trait BoundingRect<T: CoordNum> { type Output; fn bounding_rect(&self) -> Self::Output; }
impl<T> BoundingRect<T> for Coord<T>
where
    T: CoordNum,
{
    type Output = Rect<T>;
//@fn geo/src/algorithm/bounding_rect.rs | impl<T> BoundingRect<T> for Coord<T> where T: CoordNum, | bounding_rect | id=C19.V.coord_bounding_rect
//@ret r
//@spec
        ensures box_of_two(r, *self, *self),
//@end
}
impl<T> BoundingRect<T> for Point<T>
where
    T: CoordNum,
{
    type Output = Rect<T>;
//@fn geo/src/algorithm/bounding_rect.rs | impl<T> BoundingRect<T> for Point<T> where T: CoordNum, | bounding_rect | id=C19.V.point_bounding_rect
//@ret r
//@spec
        ensures box_of_two(r, self.0, self.0),
//@end
}
impl<T> BoundingRect<T> for Line<T>
where
    T: CoordNum,
{
    type Output = Rect<T>;
//@fn geo/src/algorithm/bounding_rect.rs | impl<T> BoundingRect<T> for Line<T> where T: CoordNum, | bounding_rect | id=C19.V.line_bounding_rect
//@ret r
//@spec
        // the componentwise minimum and maximum of the two traversed coordinates (start, end)
        ensures box_of_two(r, self.start, self.end),
//@end
}
impl<T> BoundingRect<T> for Rect<T>
where
    T: CoordNum,
{
    type Output = Rect<T>;
//@fn geo/src/algorithm/bounding_rect.rs | impl<T> BoundingRect<T> for Rect<T> where T: CoordNum, | bounding_rect | id=C19.V.rect_bounding_rect
//@ret r
//@spec
        ensures r == *self,
//@end
}

} // verus!
fn main() {}
