// Unit c19_minmax: the fold kernel of every bounding box (property C19).
//@include prelude_scalar.rs
verus! {

pub open spec fn pc_gt<T: PartialOrd>(a: T, b: T) -> bool { a.partial_cmp_spec(&b) == Some(Ordering::Greater) }
pub open spec fn pc_lt<T: PartialOrd>(a: T, b: T) -> bool { a.partial_cmp_spec(&b) == Some(Ordering::Less) }

//@fn geo-types/src/private_utils.rs | - | get_min_max | id=C19.V.get_min_max
//@ret r
//@spec
    requires T::obeys_partial_cmp_spec(),
    ensures
        // the running (min, max) pair extended by p
        r == (if pc_gt(p, max) { (min, p) } else if pc_lt(p, min) { (p, max) } else { (min, max) }),
//@end

/// consequence for totally ordered scalars: the result is the componentwise min / max (given min <= max)
pub proof fn lemma_min_max_is_min_max<T: CoordNum>(p: T, min: T, max: T, r: (T, T))
    requires
        min.val() <= max.val(),
        r == (if pc_gt(p, max) { (min, p) } else if pc_lt(p, min) { (p, max) } else { (min, max) }),
    ensures
        r.0.val() == (if p.val() < min.val() { p.val() } else { min.val() }),
        r.1.val() == (if p.val() > max.val() { p.val() } else { max.val() }),
        r.0.val() <= r.1.val(),
{
    T::ax_obeys(); T::ax_cmp(p, max); T::ax_cmp(p, min);
}

} // verus!
fn main() {}
