// Unit c05_exact: the loop-free area kernels over the exact ring scalar (property C05): Rect area = width * height
// (the area of its polygon form), Line::determinant (the shoelace term).  The ring sum itself
// (`twice_signed_ring_area`) passes a closure without a specification to `map_coords` and is out of Verus' reach
// (K harnesses c05_k_ring_area_* decide it on the lattice).
//@include prelude_exact.rs
verus! {
//@type geo-types/src/geometry/coord.rs | Coord
//@type geo-types/src/geometry/line.rs | Line
//@type geo-types/src/geometry/rect.rs | Rect
pub closed spec fn rmin<T: CoordNum>(r: Rect<T>) -> Coord<T> { r.min }
pub closed spec fn rmax<T: CoordNum>(r: Rect<T>) -> Coord<T> { r.max }

impl<T: CoordNum> Rect<T> {
//@fn geo-types/src/geometry/rect.rs | impl<T: CoordNum> Rect<T> | min | id=C18.V.rect_min | props=C18
//@ret r
//@spec
    ensures r == rmin(self),
//@end
//@fn geo-types/src/geometry/rect.rs | impl<T: CoordNum> Rect<T> | max | id=C18.V.rect_max | props=C18
//@ret r
//@spec
    ensures r == rmax(self),
//@end
//@fn geo-types/src/geometry/rect.rs | impl<T: CoordNum> Rect<T> | width | id=C05.V.rect_width
//@ret r
//@spec
    ensures r.val() == rmax(self).x.val() - rmin(self).x.val(),
//@entry
        proof { T::ax_obeys(); T::ax_ring(); }
//@end
//@fn geo-types/src/geometry/rect.rs | impl<T: CoordNum> Rect<T> | height | id=C05.V.rect_height
//@ret r
//@spec
    ensures r.val() == rmax(self).y.val() - rmin(self).y.val(),
//@entry
        proof { T::ax_obeys(); T::ax_ring(); }
//@end
}

impl<T: CoordNum> Line<T> {
//@fn geo-types/src/geometry/line.rs | impl<T: CoordNum> Line<T> | determinant | id=C05.V.line_determinant
//@ret r
//@spec
    // the shoelace term x1*y2 - y1*x2 of the segment
    ensures r.val() == self.start.x.val() * self.end.y.val() - self.start.y.val() * self.end.x.val(),
//@entry
        proof { T::ax_obeys(); T::ax_ring(); }
//@end
}

pub trait Area<T>
where
    T: CoordNum,
{
    fn signed_area(&self) -> T;
    fn unsigned_area(&self) -> T;
}

impl<T> Area<T> for Rect<T>
where
    T: CoordNum,
{
//@fn geo/src/algorithm/area.rs | impl<T> Area<T> for Rect<T> where T: CoordNum, | signed_area | id=C05.V.rect_signed_area
//@ret r
//@spec
        ensures r.val() == (rmax(*self).x.val() - rmin(*self).x.val()) * (rmax(*self).y.val() - rmin(*self).y.val()),
//@entry
        proof { T::ax_obeys(); T::ax_ring(); }
//@end
//@fn geo/src/algorithm/area.rs | impl<T> Area<T> for Rect<T> where T: CoordNum, | unsigned_area | id=C05.V.rect_unsigned_area
//@ret r
//@spec
        ensures r.val() == (rmax(*self).x.val() - rmin(*self).x.val()) * (rmax(*self).y.val() - rmin(*self).y.val()),
//@entry
        proof { T::ax_obeys(); T::ax_ring(); }
//@end
}

} // verus!
fn main() {}
