// Unit c06_closed: the closed-form centroids that do not go through the accumulator (property C06: "centroid is the centre
// of mass ..."):
//   * `Rect::center` (geo-types): each component is the quotient by a scalar of value 2 of a scalar carrying exactly
//     max + min of that axis (the midpoint; the quotient is named, not evaluated: the exact ring scalar has no quotients);
//   * `Centroid for Rect` = that centre, converted into a Point unchanged;
//   * `Centroid for Point` = the point itself.
// ASSUMED: exact ring scalar; the division's precondition (never panics for floats).
//@include prelude_exact.rs
verus! {
pub trait GeoFloat: CoordFloat {}
//@type geo-types/src/geometry/coord.rs | Coord
//@type geo-types/src/geometry/point.rs | Point
//@type geo-types/src/geometry/rect.rs | Rect
pub closed spec fn rmin<T: CoordNum>(r: Rect<T>) -> Coord<T> { r.min }
pub closed spec fn rmax<T: CoordNum>(r: Rect<T>) -> Coord<T> { r.max }

impl<T: CoordNum> From<Coord<T>> for Point<T> {
//@fn geo-types/src/geometry/point.rs | impl<T: CoordNum> From<Coord<T>> for Point<T> | from | id=C12.V.point_from_coord | props=C12
//@ret r
//@spec
    ensures r.0 == x,
//@end
}
impl<T: CoordNum> vstd::std_specs::convert::FromSpecImpl<Coord<T>> for Point<T> {
    open spec fn obeys_from_spec() -> bool { false }
    uninterp spec fn from_spec(v: Coord<T>) -> Self;
}

/// r has the value of the quotient (by a scalar of value 2) of a scalar carrying the exact value `twice`
pub open spec fn is_half_of<T: CoordFloat>(r: T, twice: int) -> bool {
    exists|s: T, d: T| s.val() == twice && d.val() == 2 && r.val() == (#[trigger] s.div_spec(d)).val()
}
/// THE FORMULA: the midpoint of the two corners, axis by axis
pub open spec fn is_center<T: CoordFloat>(c: Coord<T>, r: Rect<T>) -> bool {
    is_half_of(c.x, rmax(r).x.val() + rmin(r).x.val()) && is_half_of(c.y, rmax(r).y.val() + rmin(r).y.val())
}

impl<T: CoordFloat> Rect<T> {
//@fn geo-types/src/geometry/rect.rs | impl<T: CoordFloat> Rect<T> | center | id=C06.V.rect_center
//@ret r
//@spec
    ensures is_center(r, self),
//@entry
        proof { T::ax_obeys(); T::ax_ring(); T::ax_div(); }
//@end
}

pub trait Centroid { type Output; fn centroid(&self) -> Self::Output; }
impl<T> Centroid for Rect<T>
where
    T: GeoFloat,
{
    type Output = Point<T>;
//@fn geo/src/algorithm/centroid.rs | impl<T> Centroid for Rect<T> where T: GeoFloat, | centroid | id=C06.V.rect_centroid
//@ret r
//@spec
        ensures is_center(r.0, *self),
//@end
}
impl<T> Centroid for Point<T>
where
    T: GeoFloat,
{
    type Output = Point<T>;
//@fn geo/src/algorithm/centroid.rs | impl<T> Centroid for Point<T> where T: GeoFloat, | centroid | id=C06.V.point_centroid
//@ret r
//@spec
        ensures r == *self,
//@end
}

} // verus!
fn main() {}
