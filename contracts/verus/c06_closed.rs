// Unit c06_closed: the closed-form centroids that do not go through the accumulator (property C06: "centroid is the centre
// of mass ..."):
//   * `Rect::center` (geo-types): each component is the quotient by a scalar of value 2 of a scalar carrying exactly
//     max + min of that axis (the midpoint; the quotient is named, not evaluated: the exact ring scalar has no quotients);
//   * `Centroid for Rect` = that centre, converted into a Point unchanged;
//   * `Centroid for Point` = the point itself.
//   * `Centroid for Line` = (start_point + end_point) / 2: each component is the quotient by a scalar of value 2 of a scalar
//     carrying exactly start + end of that axis (through the real `Add for Point / Coord`, `Div<T> for Point / Coord`).
// ASSUMED: exact ring scalar; the division's precondition (never panics for floats).
//@include prelude_exact.rs
verus! {
pub trait GeoFloat: CoordFloat {}
//@type geo-types/src/geometry/coord.rs | Coord
//@type geo-types/src/geometry/point.rs | Point
//@type geo-types/src/geometry/rect.rs | Rect
pub closed spec fn rmin<T: CoordNum>(r: Rect<T>) -> Coord<T> { r.min }
pub closed spec fn rmax<T: CoordNum>(r: Rect<T>) -> Coord<T> { r.max }

impl<T: CoordNum> From<Coord<T>> for Point<T> {
//@fn geo-types/src/geometry/point.rs | impl<T: CoordNum> From<Coord<T>> for Point<T> | from | id=C12.V.point_from_coord | props=C12
//@ret r
//@spec
    ensures r.0 == x,
//@end
}
impl<T: CoordNum> vstd::std_specs::convert::FromSpecImpl<Coord<T>> for Point<T> {
    open spec fn obeys_from_spec() -> bool { false }
    uninterp spec fn from_spec(v: Coord<T>) -> Self;
}

/// r has the value of the quotient (by a scalar of value 2) of a scalar carrying the exact value `twice`
pub open spec fn is_half_of<T: CoordFloat>(r: T, twice: int) -> bool {
    exists|s: T, d: T| s.val() == twice && d.val() == 2 && r.val() == (#[trigger] s.div_spec(d)).val()
}
/// THE FORMULA: the midpoint of the two corners, axis by axis
pub open spec fn is_center<T: CoordFloat>(c: Coord<T>, r: Rect<T>) -> bool {
    is_half_of(c.x, rmax(r).x.val() + rmin(r).x.val()) && is_half_of(c.y, rmax(r).y.val() + rmin(r).y.val())
}

impl<T: CoordFloat> Rect<T> {
//@fn geo-types/src/geometry/rect.rs | impl<T: CoordFloat> Rect<T> | center | id=C06.V.rect_center
//@ret r
//@spec
    ensures is_center(r, self),
//@entry
        proof { T::ax_obeys(); T::ax_ring(); T::ax_div(); }
//@end
}

pub trait Centroid { type Output; fn centroid(&self) -> Self::Output; }
impl<T> Centroid for Rect<T>
where
    T: GeoFloat,
{
    type Output = Point<T>;
//@fn geo/src/algorithm/centroid.rs | impl<T> Centroid for Rect<T> where T: GeoFloat, | centroid | id=C06.V.rect_centroid
//@ret r
//@spec
        ensures is_center(r.0, *self),
//@end
}
impl<T> Centroid for Point<T>
where
    T: GeoFloat,
{
    type Output = Point<T>;
//@fn geo/src/algorithm/centroid.rs | impl<T> Centroid for Point<T> where T: GeoFloat, | centroid | id=C06.V.point_centroid
//@ret r
//@spec
        ensures r == *self,
//@end
}

// ------------------------------------------------------------------ Centroid for Line: the midpoint (start + end) / 2
//@type geo-types/src/geometry/line.rs | Line
/// the quotient of a scalar of value `num` by the scalar d
pub open spec fn is_quot_of<T: CoordNum>(r: T, num: int, d: T) -> bool {
    exists|s: T| s.val() == num && r.val() == (#[trigger] s.div_spec(d)).val()
}
impl<T: CoordNum> vstd::std_specs::ops::AddSpecImpl for Coord<T> {
    open spec fn obeys_add_spec() -> bool { false }
    open spec fn add_req(self, rhs: Self) -> bool { true }
    uninterp spec fn add_spec(self, rhs: Self) -> Self;
}
impl<T: CoordNum> core::ops::Add for Coord<T> {
    type Output = Self;
//@fn geo-types/src/geometry/coord.rs | impl<T: CoordNum> Add for Coord<T> | add | id=C12.V.coord_add | props=C12
//@ret r
//@spec
        ensures r.x.val() == self.x.val() + rhs.x.val(), r.y.val() == self.y.val() + rhs.y.val(),
//@entry
        proof { T::ax_obeys(); T::ax_ring(); }
//@end
}
impl<T: CoordNum> vstd::std_specs::ops::DivSpecImpl<T> for Coord<T> {
    open spec fn obeys_div_spec() -> bool { false }
    open spec fn div_req(self, rhs: T) -> bool { forall|a: T| #[trigger] a.div_req(rhs) }
    uninterp spec fn div_spec(self, rhs: T) -> Self;
}
impl<T: CoordNum> core::ops::Div<T> for Coord<T> {
    type Output = Self;
//@fn geo-types/src/geometry/coord.rs | impl<T: CoordNum> Div<T> for Coord<T> | div | id=C06.V.coord_div
//@ret r
//@spec
        ensures T::obeys_div_spec() ==> r.x == self.x.div_spec(rhs) && r.y == self.y.div_spec(rhs),
//@end
}
impl<T: CoordNum> vstd::std_specs::ops::AddSpecImpl for Point<T> {
    open spec fn obeys_add_spec() -> bool { false }
    open spec fn add_req(self, rhs: Self) -> bool { true }
    uninterp spec fn add_spec(self, rhs: Self) -> Self;
}
impl<T: CoordNum> core::ops::Add for Point<T> {
    type Output = Self;
//@fn geo-types/src/geometry/point.rs | impl<T: CoordNum> Add for Point<T> | add | id=C06.V.point_add
//@ret r
//@spec
        ensures r.0.x.val() == self.0.x.val() + rhs.0.x.val(), r.0.y.val() == self.0.y.val() + rhs.0.y.val(),
//@end
}
impl<T: CoordNum> vstd::std_specs::ops::DivSpecImpl<T> for Point<T> {
    open spec fn obeys_div_spec() -> bool { false }
    open spec fn div_req(self, rhs: T) -> bool { forall|a: T| #[trigger] a.div_req(rhs) }
    uninterp spec fn div_spec(self, rhs: T) -> Self;
}
impl<T: CoordNum> core::ops::Div<T> for Point<T> {
    type Output = Self;
//@fn geo-types/src/geometry/point.rs | impl<T: CoordNum> Div<T> for Point<T> | div | id=C06.V.point_div
//@ret r
//@spec
        ensures T::obeys_div_spec() ==> r.0.x == self.0.x.div_spec(rhs) && r.0.y == self.0.y.div_spec(rhs),
//@end
}
impl<T: CoordNum> Line<T> {
    /// twins of Line::start_point / end_point (`Point::from(self.start)`; Point::from is proved above)
    #[verifier::external_body]
    pub fn start_point(&self) -> (r: Point<T>) ensures r.0 == self.start { unimplemented!() }
    #[verifier::external_body]
    pub fn end_point(&self) -> (r: Point<T>) ensures r.0 == self.end { unimplemented!() }
}
impl<T> Centroid for Line<T>
where
    T: GeoFloat,
{
    type Output = Point<T>;
//@fn geo/src/algorithm/centroid.rs | impl<T> Centroid for Line<T> where T: GeoFloat, | centroid | id=C06.V.line_centroid
//@ret r
//@spec
        // THE FORMULA: the midpoint of the two end points, axis by axis
        ensures is_half_of(r.0.x, self.start.x.val() + self.end.x.val()), is_half_of(r.0.y, self.start.y.val() + self.end.y.val()),
//@entry
        proof { T::ax_obeys(); T::ax_ring(); T::ax_div(); }
//@end
}

} // verus!
fn main() {}
