// Unit c07_segment: `line_segment_distance` (geo-types private_utils), the kernel under every Euclidean point-to-segment
// distance (property C07: "pairs whose closest approach is vertex-vertex, vertex-edge ..."): WHICH feature of the
// segment the distance is measured to -- the start when the projection parameter is <= 0, the end when it is >= 1, the
// carrier line otherwise; a zero-length segment is its point.  Exact ring scalar; `hypot` is abstract (a function of
// its arguments), and of the two quotients only their position relative to 0 and 1 is assumed (positive divisor).
//@include prelude_exact.rs
verus! {
//@type geo-types/src/geometry/coord.rs | Coord
//@type geo-types/src/geometry/line.rs | Line
impl<T: CoordNum> vstd::std_specs::cmp::PartialEqSpecImpl for Coord<T> {
    open spec fn obeys_eq_spec() -> bool { T::obeys_eq_spec() }
    open spec fn eq_spec(&self, other: &Self) -> bool { self.x.eq_spec(&other.x) && self.y.eq_spec(&other.y) }
}
pub open spec fn ceq<T: CoordNum>(a: Coord<T>, b: Coord<T>) -> bool { a.x.val() == b.x.val() && a.y.val() == b.y.val() }
pub assume_specification<T>[ <T as core::convert::From<T>>::from ](t: T) -> (r: T)
    ensures r == t;

impl<T: CoordNum> vstd::std_specs::ops::SubSpecImpl for Coord<T> {
    open spec fn obeys_sub_spec() -> bool { false }
    open spec fn sub_req(self, rhs: Self) -> bool { true }
    uninterp spec fn sub_spec(self, rhs: Self) -> Self;
}
impl<T: CoordNum> core::ops::Sub for Coord<T> {
    type Output = Self;
//@fn geo-types/src/geometry/coord.rs | impl<T: CoordNum> Sub for Coord<T> | sub | id=C07.V.coord_sub
//@ret r
//@spec
        ensures r.x.val() == self.x.val() - rhs.x.val(), r.y.val() == self.y.val() - rhs.y.val(),
//@entry
        proof { T::ax_obeys(); T::ax_ring(); }
//@end
}
impl<T: CoordNum> Line<T> {
//@fn geo-types/src/geometry/line.rs | impl<T: CoordNum> Line<T> | new | id=C18.V.line_new | props=C18
//@ret r
//@spec
    requires forall|c: C| call_requires(C::into, (c,)),
    ensures call_ensures(C::into, (start,), r.start), call_ensures(C::into, (end,), r.end),
//@end
//@fn geo-types/src/geometry/line.rs | impl<T: CoordNum> Line<T> | delta | id=C07.V.line_delta
//@ret r
//@spec
    ensures r.x.val() == self.end.x.val() - self.start.x.val(), r.y.val() == self.end.y.val() - self.start.y.val(),
//@end
//@fn geo-types/src/geometry/line.rs | impl<T: CoordNum> Line<T> | dx | id=C07.V.line_dx
//@ret r
//@spec
    ensures r.val() == self.end.x.val() - self.start.x.val(),
//@entry
    proof { T::ax_obeys(); T::ax_ring(); }
//@end
//@fn geo-types/src/geometry/line.rs | impl<T: CoordNum> Line<T> | dy | id=C07.V.line_dy
//@ret r
//@spec
    ensures r.val() == self.end.y.val() - self.start.y.val(),
//@entry
    proof { T::ax_obeys(); T::ax_ring(); }
//@end
}
/// Euclidean distance between two coordinates, through the abstract hypot
pub open spec fn dist<T: CoordNum>(a: Coord<T>, b: Coord<T>) -> int { m_hyp(b.x.val() - a.x.val(), b.y.val() - a.y.val()) }

//@fn geo-types/src/private_utils.rs | - | line_euclidean_length | id=C07.V.line_euclidean_length
//@ret r
//@spec
    ensures r.val() == dist(line.start, line.end),
//@end

pub open spec fn iabs(a: int) -> int { if a >= 0 { a } else { -a } }
/// the contract, over the converted arguments
pub open spec fn seg_dist_post<T: CoordFloat>(p: Coord<T>, s: Coord<T>, e: Coord<T>, r: T) -> bool {
    let (dx, dy) = (e.x.val() - s.x.val(), e.y.val() - s.y.val());
    let num = (p.x.val() - s.x.val()) * dx + (p.y.val() - s.y.val()) * dy;   // (p - s) . (e - s)
    let den = dx * dx + dy * dy;                                               // |e - s|^2
    if ceq(s, e) { r.val() == dist(p, s) }
    // the projection falls before the start / past the end: vertex distance
    else if num <= 0 { r.val() == dist(p, s) }
    else if num >= den { r.val() == dist(p, e) }
    // otherwise the distance to the carrier line: |cross / |e - s|^2| * |e - s|
    else { exists|q: T| r.val() == iabs(q.val()) * m_hyp(dx, dy) }
}
//@fn geo-types/src/private_utils.rs | - | line_segment_distance | id=C07.V.line_segment_distance
//@ret r
//@spec
    requires forall|c: C| call_requires(C::into, (c,)),
    ensures
        exists|p: Coord<T>, s: Coord<T>, e: Coord<T>| #[trigger] call_ensures(C::into, (point,), p) && #[trigger] call_ensures(C::into, (start,), s) && #[trigger] call_ensures(C::into, (end,), e)
            && seg_dist_post(p, s, e, r),
//@entry
    proof {
        T::ax_obeys(); T::ax_order(); T::ax_ring(); T::ax_div();
        assert forall|a: int| #[trigger] (a * a) >= 0 && (a * a == 0 ==> a == 0) by { assert(a * a >= 0 && (a * a == 0 ==> a == 0)) by (nonlinear_arith); }
    }
//@end

} // verus!
fn main() {}
