// Unit c19_gc: `GeometryCollection::bounding_rect` (property C19: "bounding_rect is the component-wise minimum and
// maximum of the traversed coordinates, None exactly when there are none" -- for collections: over the members, wherever
// the members without coordinates sit, any number of members).
// The real body is `self.iter().fold(None, |acc, next| ..)`.  ASSUMED: `GeometryCollection::iter()` yields the members
// in order (twin returning the slice iterator of the underlying Vec), the std contract of `Iterator::fold` for
// slice::Iter (accumulators chained through the closure), the members' own `bounding_rect` (abstract: the recursive
// Geometry enum is opaque here), and `bounding_rect_merge` (= componentwise min / max: proved in unit c19_minmax).
// The fold closure is given its types and contract in place (X10).
//@include prelude_scalar.rs
//@include prelude_std.rs
//@include prelude_types.rs
//@include frag_rect_access.rs
verus! {

#[verifier::external_body] #[verifier::accept_recursive_types(T)]
pub struct Geometry<T: CoordNum> { _p: core::marker::PhantomData<T> }
impl<T: CoordNum> PartialEq for Geometry<T> { #[verifier::external_body] fn eq(&self, o: &Self) -> bool { unimplemented!() } }
impl<T: CoordNum> Eq for Geometry<T> {}
impl<T: CoordNum> Clone for Geometry<T> { #[verifier::external_body] fn clone(&self) -> Self { unimplemented!() } }
//@type geo-types/src/geometry/geometry_collection.rs | GeometryCollection
impl<'a, T: CoordNum> GeometryCollection<T> {
    /// twin of GeometryCollection::iter (a hand-written iterator over the Vec, in order)
    #[verifier::external_body]
    pub fn iter(&'a self) -> (r: core::slice::Iter<'a, Geometry<T>>)
        ensures r.remaining().len() == self.0@.len(), forall|i: int| 0 <= i < self.0@.len() ==> *(#[trigger] r.remaining()[i]) == self.0@[i],
    { unimplemented!() }
}

/// std: `Iterator::fold` threads the accumulator through the closure, element by element (ASSUMED): there is a sequence
/// of accumulators, starting with `init`, each obtained from the previous one and the next element by the closure
pub open spec fn chain_ok<'a, T, B, F: FnMut(B, &'a T) -> B>(f: F, s: Seq<&'a T>, accs: Seq<B>) -> bool {
    accs.len() == s.len() + 1 && forall|i: int| 0 <= i < s.len() ==> call_ensures(f, (#[trigger] accs[i], s[i]), accs[i + 1])
}
pub open spec fn fold_chain<'a, T, B, F: FnMut(B, &'a T) -> B>(f: F, s: Seq<&'a T>, init: B, r: B) -> bool {
    exists|accs: Seq<B>| #[trigger] chain_ok(f, s, accs) && accs[0] == init && accs[s.len() as int] == r
}
pub assume_specification<'a, T, B, F: FnMut(B, &'a T) -> B>[ <core::slice::Iter<'a, T> as Iterator>::fold::<B, F> ](it: core::slice::Iter<'a, T>, init: B, f: F) -> (r: B)
    requires forall|b: B, t: &'a T| call_requires(f, (b, t)),
    ensures fold_chain(f, it.remaining(), init, r),
;

pub uninterp spec fn m_brect<T: CoordNum>(g: Geometry<T>) -> Option<Rect<T>>;
pub open spec fn wf_rect<T: CoordNum>(r: Rect<T>) -> bool { rmin(r).x.val() <= rmax(r).x.val() && rmin(r).y.val() <= rmax(r).y.val() }
pub trait BoundingRect<T: CoordNum> { type Output; fn bounding_rect(&self) -> Self::Output; }
impl<T: CoordNum> BoundingRect<T> for Geometry<T> {
    type Output = Option<Rect<T>>;
    #[verifier::external_body]
    fn bounding_rect(&self) -> (r: Option<Rect<T>>) ensures r == m_brect(*self), r is Some ==> wf_rect(r->Some_0) { unimplemented!() }
}
pub open spec fn imin(a: int, b: int) -> int { if a <= b { a } else { b } }
pub open spec fn imax(a: int, b: int) -> int { if a >= b { a } else { b } }
/// the box as four integers
pub struct B4 { pub x0: int, pub y0: int, pub x1: int, pub y1: int }
pub open spec fn b4<T: CoordNum>(r: Rect<T>) -> B4 { B4 { x0: rmin(r).x.val(), y0: rmin(r).y.val(), x1: rmax(r).x.val(), y1: rmax(r).y.val() } }
pub open spec fn b4_merge(a: B4, b: B4) -> B4 { B4 { x0: imin(a.x0, b.x0), y0: imin(a.y0, b.y0), x1: imax(a.x1, b.x1), y1: imax(a.y1, b.y1) } }
/// contract of bounding_rect_merge (proved in unit c19_minmax: obligation C19.V.bounding_rect_merge)
#[verifier::external_body]
fn bounding_rect_merge<T: CoordNum>(a: Rect<T>, b: Rect<T>) -> (r: Rect<T>)
    ensures wf_rect(a) && wf_rect(b) ==> b4(r) == b4_merge(b4(a), b4(b)) && wf_rect(r),
{ unimplemented!() }

/// the box of the first k members: None when none of them has one, otherwise the merge of those that have
pub open spec fn members_box<T: CoordNum>(m: Seq<Geometry<T>>, k: int) -> Option<B4>
    decreases k
{
    if k <= 0 { None } else {
        match (members_box(m, k - 1), m_brect(m[k - 1])) {
            (None, None) => None,
            (Some(a), None) => Some(a),
            (None, Some(r)) => Some(b4(r)),
            (Some(a), Some(r)) => Some(b4_merge(a, b4(r))),
        }
    }
}
pub open spec fn ob4<T: CoordNum>(r: Option<Rect<T>>) -> Option<B4> { match r { None => None, Some(x) => Some(b4(x)) } }

/// what the fold closure guarantees (its in-place contract)
pub open spec fn step_ok<T: CoordNum>(acc: Option<Rect<T>>, next: Geometry<T>, o: Option<Rect<T>>) -> bool {
    (acc is Some ==> wf_rect(acc->Some_0)) ==>
        (o is Some ==> wf_rect(o->Some_0)) && ob4(o) == (match (ob4(acc), m_brect(next)) {
            (None, None) => None, (Some(a), None) => Some(a), (None, Some(x)) => Some(b4(x)), (Some(a), Some(x)) => Some(b4_merge(a, b4(x))) })
}
/// a sequence of accumulators, each obtained from the previous one and the next member as the closure promises
pub open spec fn steps_ok<T: CoordNum>(accs: Seq<Option<Rect<T>>>, m: Seq<Geometry<T>>) -> bool {
    accs.len() == m.len() + 1 && accs[0] is None && forall|i: int| 0 <= i < m.len() ==> step_ok(#[trigger] accs[i], m[i], accs[i + 1])
}
/// ... computes members_box (induction).  Broadcast, closure-free: the real body passes an anonymous closure inside a
/// single expression, so the lemma cannot be called with it; the solver applies it to the accumulators `fold` promises.
pub broadcast proof fn lemma_steps<T: CoordNum>(accs: Seq<Option<Rect<T>>>, m: Seq<Geometry<T>>, k: int)
    requires 0 <= k <= m.len(), steps_ok(accs, m),
    ensures #![trigger accs[k], members_box(m, k)] ob4(accs[k]) == members_box(m, k) && (accs[k] is Some ==> wf_rect(accs[k]->Some_0))
    decreases k
{
    if k > 0 { lemma_steps(accs, m, k - 1); assert(step_ok(accs[k - 1], m[k - 1], accs[k])); }
}

impl<T> BoundingRect<T> for GeometryCollection<T>
where
    T: CoordNum,
{
    type Output = Option<Rect<T>>;
//@fn geo/src/algorithm/bounding_rect.rs | impl<T> BoundingRect<T> for GeometryCollection<T> where T: CoordNum, | bounding_rect | id=C19.V.gc_bounding_rect
//@ret r
//@spec
        ensures ob4(r) == members_box(self.0@, self.0@.len() as int),
//@closure 1 `|acc, next|` | acc: Option<Rect<T>>, next: &Geometry<T> | o: Option<Rect<T>>
            ensures step_ok(acc, *next, o)
//@entry
        broadcast use lemma_steps;
//@end
}

} // verus!
fn main() {}
