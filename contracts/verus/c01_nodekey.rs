// Unit c01_nodekey: the node map of the relate graph is keyed by coordinates; its key order must be the
// lexicographic order of the coordinate VALUES, so that two coordinates that compare equal (`==`, e.g. 0.0 and
// -0.0) are one node (property C01: shared vertices; "the same point set written differently").
// Also decides `utils::lex_cmp` (C08 helper) for all scalars.
//@include prelude_scalar.rs
verus! {

pub trait GeoFloat: CoordNum {
    /// num_traits::Float::is_nan -- finite, non-NaN coordinates are a precondition of the whole crate
    fn is_nan(self) -> (r: bool) ensures !r;
}
//@type geo-types/src/geometry/coord.rs | Coord
impl<T: CoordNum> vstd::std_specs::cmp::PartialEqSpecImpl for Coord<T> {
    open spec fn obeys_eq_spec() -> bool { T::obeys_eq_spec() }
    open spec fn eq_spec(&self, other: &Self) -> bool { self.x.eq_spec(&other.x) && self.y.eq_spec(&other.y) }
}
pub open spec fn ceq<T: CoordNum>(a: Coord<T>, b: Coord<T>) -> bool { a.x.val() == b.x.val() && a.y.val() == b.y.val() }

pub assume_specification[ core::cmp::Ordering::then ](a: Ordering, b: Ordering) -> (r: Ordering)
    ensures r == (if a == Ordering::Equal { b } else { a });

pub open spec fn lex_spec<T: CoordNum>(p: Coord<T>, q: Coord<T>) -> Ordering {
    if p.x.val() < q.x.val() { Ordering::Less } else if p.x.val() > q.x.val() { Ordering::Greater }
    else { int_cmp(p.y.val(), q.y.val()) }
}

pub mod utils {
    use super::*;
//@fn geo/src/utils.rs | - | lex_cmp | id=C08.V.lex_cmp | props=C08,C01
//@ret r
//@spec
    ensures r == lex_spec(*p, *q),
//@entry
        proof { T::ax_obeys(); T::ax_order(); }
//@end
}

//@type geo/src/algorithm/relate/geomgraph/node_map.rs | NodeKey

pub closed spec fn key_coord<F: GeoFloat>(k: NodeKey<F>) -> Coord<F> { k.0 }

/// X8: local traits of the same shape as std's Ord / PartialEq (Verus does not let an impl of a std trait carry
/// its own contract)
pub trait OrdLike { fn cmp(&self, other: &Self) -> Ordering; }
pub trait EqLike { fn eq(&self, other: &Self) -> bool; }

impl<F: GeoFloat> OrdLike for NodeKey<F> {
//@fn geo/src/algorithm/relate/geomgraph/node_map.rs | impl<F: GeoFloat> std::cmp::Ord for NodeKey<F> | cmp | id=C01.V.nodekey_cmp | props=C01
//@ret r
//@spec
        ensures
            r == lex_spec(key_coord(*self), key_coord(*other)),
            // in particular: keys are Equal exactly when the coordinates are equal as numbers
            (r == Ordering::Equal) == ceq(key_coord(*self), key_coord(*other)),
//@end
}
impl<F: GeoFloat> EqLike for NodeKey<F> {
//@fn geo/src/algorithm/relate/geomgraph/node_map.rs | impl<F: GeoFloat> std::cmp::PartialEq for NodeKey<F> | eq | id=C01.V.nodekey_eq | props=C01
//@ret r
//@spec
        ensures r == ceq(key_coord(*self), key_coord(*other)),
//@entry
        proof { F::ax_obeys(); F::ax_order(); }
//@end
}

} // verus!
fn main() {}
