// fragment: winding-number semantics of a ring (shared by units c02_ring and c02_position)
verus! {
// ------------------------------------------------------------------ winding number spec
/// +1 for an upward crossing strictly right of p, -1 for a downward one (textbook rules:
/// upward edges include their start and exclude their end, downward edges the reverse)
pub open spec fn crossing(p: P2, a: P2, b: P2) -> int {
    if a.y <= p.y && p.y < b.y && cross(a, b, p) > 0 { 1 }
    else if b.y <= p.y && p.y < a.y && cross(a, b, p) < 0 { -1 }
    else { 0 }
}

/// winding number contribution of the first k segments of the ring
pub open spec fn ring_wn<T: CoordNum>(p: P2, s: Seq<Coord<T>>, k: int) -> int
    decreases k
{
    if k <= 0 { 0 } else { ring_wn(p, s, k - 1) + crossing(p, pt(s[k - 1]), pt(s[k])) }
}

pub open spec fn on_seg_k<T: CoordNum>(p: P2, s: Seq<Coord<T>>, j: int) -> bool {
    on_segment(p, pt(s[j]), pt(s[j + 1]))
}
pub open spec fn on_ring_before<T: CoordNum>(p: P2, s: Seq<Coord<T>>, k: int) -> bool {
    exists|j: int| 0 <= j < k && #[trigger] on_seg_k(p, s, j)
}
/// loop invariant of the ring walk: no segment seen so far contains p -- except that the
/// FIRST segment is not examined at its start vertex when it leaves downwards (the walk relies
/// on the closing segment, which ends at that vertex, to report it)
pub open spec fn none_on_ring_except_seam<T: CoordNum>(p: P2, s: Seq<Coord<T>>, k: int) -> bool {
    forall|j: int| 0 <= j < k && #[trigger] on_seg_k(p, s, j) ==> (p == pt(s[j]) && pt(s[j + 1]).y < p.y && (j == 0 || !on_seg_k(p, s, j - 1)) && j == 0)
}

/// position of p relative to the closed ring s (>= 2 coordinates)
pub open spec fn ring_pos<T: CoordNum>(p: P2, s: Seq<Coord<T>>) -> CoordPos {
    if s.len() == 0 { CoordPos::Outside }
    else if s.len() == 1 { if p == pt(s[0]) { CoordPos::OnBoundary } else { CoordPos::Outside } }
    else if on_ring_before(p, s, s.len() - 1) { CoordPos::OnBoundary }
    else if ring_wn(p, s, s.len() - 1) != 0 { CoordPos::Inside }
    else { CoordPos::Outside }
}

/// a point collinear with a non-horizontal segment and at the height of its start IS its start
proof fn lemma_collinear_at_start_height(a: P2, b: P2, p: P2)
    requires cross(a, b, p) == 0, p.y == a.y, a.y != b.y
    ensures p.x == a.x
{
    assert(cross(a, b, p) == (a.y - b.y) * (p.x - a.x)) by (nonlinear_arith)
        requires p.y == a.y, cross(a, b, p) == (b.x - a.x) * (p.y - b.y) - (b.y - a.y) * (p.x - b.x);
    assert((a.y - b.y) * (p.x - a.x) == 0 && a.y != b.y ==> p.x == a.x) by (nonlinear_arith);
}

proof fn lemma_wn_bound<T: CoordNum>(p: P2, s: Seq<Coord<T>>, k: int)
    requires 0 <= k
    ensures -k <= ring_wn(p, s, k) <= k
    decreases k
{
    if k > 0 { lemma_wn_bound(p, s, k - 1); }
}


} // verus!
