// Unit c05_polygon: Polygon / MultiPolygon areas (property C05: "a polygon's area is the area of its exterior ring minus
// the areas of its holes, whatever the winding of any ring, signed by the exterior's winding") for ANY number of holes /
// members, over the exact ring scalar.  The ring area itself (`get_linestring_area` = half the shoelace sum of unit
// c05_ring) is abstract here (the halving is a division).  The bodies are `slice.iter().fold(init, closure)`:
// ASSUMED std contract of Iterator::fold for slice::Iter (chain of accumulators linked by the closure); the fold closures
// get their types and contracts in place (X10).
//@include prelude_exact.rs
use vstd::std_specs::iter::IteratorSpec;
verus! {
//@type geo-types/src/geometry/coord.rs | Coord
//@type geo-types/src/geometry/line_string.rs | LineString
//@type geo-types/src/geometry/polygon.rs | Polygon
//@type geo-types/src/geometry/multi_polygon.rs | MultiPolygon
pub closed spec fn ext<T: CoordNum>(p: Polygon<T>) -> LineString<T> { p.exterior }
pub closed spec fn ints<T: CoordNum>(p: Polygon<T>) -> Seq<LineString<T>> { p.interiors@ }
impl<T: CoordNum> Polygon<T> {
//@fn geo-types/src/geometry/polygon.rs | impl<T: CoordNum> Polygon<T> | exterior | id=C18.V.exterior | props=C18
//@ret r
//@spec
    ensures *r == ext(*self),
//@end
//@fn geo-types/src/geometry/polygon.rs | impl<T: CoordNum> Polygon<T> | interiors | id=C18.V.interiors | props=C18
//@ret r
//@spec
    ensures r@ == ints(*self),
//@end
}

/// std: `Iterator::fold` threads the accumulator through the closure, element by element (ASSUMED)
pub open spec fn chain_ok<'a, T, B, F: FnMut(B, &'a T) -> B>(f: F, s: Seq<&'a T>, accs: Seq<B>) -> bool {
    accs.len() == s.len() + 1 && forall|i: int| 0 <= i < s.len() ==> call_ensures(f, (#[trigger] accs[i], s[i]), accs[i + 1])
}
pub open spec fn fold_chain<'a, T, B, F: FnMut(B, &'a T) -> B>(f: F, s: Seq<&'a T>, init: B, r: B) -> bool {
    exists|accs: Seq<B>| #[trigger] chain_ok(f, s, accs) && accs[0] == init && accs[s.len() as int] == r
}
pub assume_specification<'a, T, B, F: FnMut(B, &'a T) -> B>[ <core::slice::Iter<'a, T> as Iterator>::fold::<B, F> ](it: core::slice::Iter<'a, T>, init: B, f: F) -> (r: B)
    requires forall|b: B, t: &'a T| call_requires(f, (b, t)),
    ensures fold_chain(f, it.remaining(), init, r),
;

/// signed area of a ring (ASSUMED function of the ring: half of c05_ring's shoelace sum)
pub uninterp spec fn ring_area<T: CoordNum>(ls: LineString<T>) -> int;
#[verifier::external_body]
pub fn get_linestring_area<T: CoordFloat>(linestring: &LineString<T>) -> (r: T) ensures r.val() == ring_area(*linestring) { unimplemented!() }
pub open spec fn iabs(a: int) -> int { if a >= 0 { a } else { -a } }

/// total unsigned area of the first k holes
pub open spec fn holes_area<T: CoordNum>(h: Seq<LineString<T>>, k: int) -> int
    decreases k
{
    if k <= 0 { 0 } else { holes_area(h, k - 1) + iabs(ring_area(h[k - 1])) }
}
/// THE FORMULA: |exterior| minus the holes, with the sign of the exterior ring
pub open spec fn polygon_area<T: CoordNum>(p: Polygon<T>) -> int {
    let e = ring_area(ext(p));
    let a = iabs(e) - holes_area(ints(p), ints(p).len() as int);
    if e < 0 { -a } else { a }
}
pub open spec fn sub_steps<T: CoordFloat>(accs: Seq<T>, h: Seq<LineString<T>>) -> bool {
    accs.len() == h.len() + 1 && forall|i: int| 0 <= i < h.len() ==> (#[trigger] accs[i + 1]).val() == accs[i].val() - iabs(ring_area(h[i]))
}
pub broadcast proof fn lemma_sub_steps<T: CoordFloat>(accs: Seq<T>, h: Seq<LineString<T>>, k: int)
    requires 0 <= k <= h.len(), sub_steps(accs, h),
    ensures #![trigger accs[k], holes_area(h, k)] accs[k].val() == accs[0].val() - holes_area(h, k)
    decreases k
{
    if k > 0 { lemma_sub_steps(accs, h, k - 1); assert(accs[k - 1 + 1].val() == accs[k - 1].val() - iabs(ring_area(h[k - 1]))); }
}

pub trait Area<T> { spec fn area_spec(&self) -> int; fn signed_area(&self) -> (r: T) where T: CoordNum ensures r.val() == self.area_spec(); fn unsigned_area(&self) -> (r: T) where T: CoordNum ensures r.val() == iabs(self.area_spec()); }
impl<T> Area<T> for Polygon<T>
where
    T: CoordFloat,
{
    open spec fn area_spec(&self) -> int { polygon_area(*self) }
//@fn geo/src/algorithm/area.rs | impl<T> Area<T> for Polygon<T> where T: CoordFloat, | signed_area | id=C05.V.polygon_signed_area
//@closure 1 `|total, next|` | total: T, next: &LineString<T> | o: T
            ensures o.val() == total.val() - iabs(ring_area(*next))
//@entry
        proof { T::ax_obeys(); T::ax_order(); T::ax_ring(); T::ax_neg(); }
        broadcast use lemma_sub_steps;
//@end
//@fn geo/src/algorithm/area.rs | impl<T> Area<T> for Polygon<T> where T: CoordFloat, | unsigned_area | id=C05.V.polygon_unsigned_area
//@end
}

// ------------------------------------------------------------------ MultiPolygon: sums over the members
pub open spec fn seq_sum(v: Seq<int>, k: int) -> int
    decreases k
{
    if k <= 0 { 0 } else { seq_sum(v, k - 1) + v[k - 1] }
}
pub open spec fn add_steps<T: CoordFloat>(accs: Seq<T>, v: Seq<int>) -> bool {
    accs.len() == v.len() + 1 && forall|i: int| 0 <= i < v.len() ==> (#[trigger] accs[i + 1]).val() == accs[i].val() + v[i]
}
pub broadcast proof fn lemma_add_steps<T: CoordFloat>(accs: Seq<T>, v: Seq<int>, k: int)
    requires 0 <= k <= v.len(), add_steps(accs, v),
    ensures #![trigger accs[k], seq_sum(v, k)] accs[k].val() == accs[0].val() + seq_sum(v, k)
    decreases k
{
    if k > 0 { lemma_add_steps(accs, v, k - 1); assert(accs[k - 1 + 1].val() == accs[k - 1].val() + v[k - 1]); }
}
pub open spec fn member_areas<T: CoordNum>(m: Seq<Polygon<T>>) -> Seq<int> { Seq::new(m.len(), |i: int| polygon_area(m[i])) }
pub open spec fn member_abs_areas<T: CoordNum>(m: Seq<Polygon<T>>) -> Seq<int> { Seq::new(m.len(), |i: int| iabs(polygon_area(m[i]))) }
pub trait AreaM<T> { fn signed_area(&self) -> T where T: CoordNum; fn unsigned_area(&self) -> T where T: CoordNum; }
impl<T> AreaM<T> for MultiPolygon<T>
where
    T: CoordFloat,
{
//@fn geo/src/algorithm/area.rs | impl<T> Area<T> for MultiPolygon<T> where T: CoordFloat, | signed_area | id=C05.V.multipolygon_signed_area
//@ret r
//@spec
        ensures r.val() == seq_sum(member_areas(self.0@), self.0@.len() as int),
//@closure 1 `|total, next|` | total: T, next: &Polygon<T> | o: T
            ensures o.val() == total.val() + polygon_area(*next)
//@entry
        proof { T::ax_obeys(); T::ax_ring(); }
        broadcast use lemma_add_steps;
//@end
//@fn geo/src/algorithm/area.rs | impl<T> Area<T> for MultiPolygon<T> where T: CoordFloat, | unsigned_area | id=C05.V.multipolygon_unsigned_area
//@ret r
//@spec
        ensures r.val() == seq_sum(member_abs_areas(self.0@), self.0@.len() as int),
//@closure 1 `|total, next|` | total: T, next: &Polygon<T> | o: T
            ensures o.val() == total.val() + iabs(polygon_area(*next))
//@entry
        proof { T::ax_obeys(); T::ax_ring(); }
        broadcast use lemma_add_steps;
//@end
}

} // verus!
fn main() {}
