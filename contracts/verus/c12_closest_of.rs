// Unit c12_closest_of: `closest_of`, the fold behind closest_point of LineString / Polygon / Rect / Triangle / Multi* /
// GeometryCollection (property C12: "Intersection(p) exactly when p intersects g, otherwise a point of g whose distance to
// p equals the distance from p to g ..., Indeterminate only for empty or zero-length input").  For ANY number of parts and
// ANY part type C with a closest_point contract `cp_post`:
//   * the result is the answer of one of the parts (or Indeterminate when there is none);
//   * an Intersection answered by a part is returned (the first one; no later part is consulted);
//   * Indeterminate exactly when every part answered Indeterminate;
//   * a SinglePoint result is not farther from p than the SinglePoint answer of ANY part.
// X13: the generic parameter `I: IntoIterator<Item = C>` is instantiated with a borrowed Vec (`&Vec<C>`, items `&C`, the
// call `element.closest_point(&p)` then goes through auto-deref exactly as geo's `impl ClosestPoint for &C` forwards);
// the body is verbatim.  ASSUMED: Closest::best_of_two's contract (PROVED on the real body in unit c12_closest),
// the abstract point-point distance `pdist`.
//@include prelude_exact.rs
verus! {
pub trait GeoFloat: CoordFloat {}
//@type geo-types/src/geometry/coord.rs | Coord
//@type geo-types/src/geometry/point.rs | Point
//@type geo/src/types.rs | Closest
pub uninterp spec fn pdist<F: CoordNum>(a: Point<F>, b: Point<F>) -> int;
pub open spec fn closest_point_of<F: GeoFloat>(c: Closest<F>) -> Point<F> {
    match c { Closest::Intersection(q) => q, Closest::SinglePoint(q) => q, Closest::Indeterminate => arbitrary() }
}
impl<F: GeoFloat> Closest<F> {
    /// twin of Closest::best_of_two: this contract is PROVED on the real body in unit c12_closest (C12.V.best_of_two)
    #[verifier::external_body]
    pub fn best_of_two(&self, other: &Self, p: Point<F>) -> (r: Self)
        ensures
            r == *self || r == *other,
            (*self is Intersection || *other is Intersection) ==> r is Intersection,
            (r is Indeterminate) == (*self is Indeterminate && *other is Indeterminate),
            (*self is SinglePoint && *other is SinglePoint) ==>
                pdist(closest_point_of(r), p) <= pdist(closest_point_of(*self), p) && pdist(closest_point_of(r), p) <= pdist(closest_point_of(*other), p),
    { unimplemented!() }
}
pub trait ClosestPoint<F: GeoFloat, Rhs = Point<F>> {
    spec fn cp_post(&self, p: &Rhs, r: Closest<F>) -> bool;
    fn closest_point(&self, p: &Rhs) -> (r: Closest<F>) ensures self.cp_post(p, r);
}

/// the answers of the first n parts
pub open spec fn answers<C: ClosestPoint<F>, F: GeoFloat>(parts: Seq<C>, p: Point<F>, gots: Seq<Closest<F>>, n: int) -> bool {
    gots.len() == n && 0 <= n <= parts.len() && forall|i: int| 0 <= i < n ==> parts[i].cp_post(&p, #[trigger] gots[i])
}

//@fn geo/src/algorithm/closest_point.rs | - | closest_of | id=C12.V.closest_of
//@sigsubst `<C, F, I>` => `<C, F>`
//@sigsubst `iter: I` => `iter: &Vec<C>`
//@sigsubst `I: IntoIterator<Item = C>,` => ``
//@ret r
//@spec
    ensures
        exists|gots: Seq<Closest<F>>, n: int| #![trigger answers(iter@, p, gots, n)] answers(iter@, p, gots, n)
            // no part before the last consulted one answered Intersection; all parts were consulted unless the last one did
            && (forall|i: int| 0 <= i < n - 1 ==> !((#[trigger] gots[i]) is Intersection))
            && (n < iter@.len() ==> n > 0 && gots[n - 1] is Intersection)
            // an Intersection is returned as it is
            && (n > 0 && gots[n - 1] is Intersection ==> r == gots[n - 1])
            && (r is Intersection ==> n > 0 && gots[n - 1] is Intersection)
            // Indeterminate exactly when every part was
            && ((r is Indeterminate) == (forall|i: int| 0 <= i < n ==> (#[trigger] gots[i]) is Indeterminate))
            // the answer of one of the parts
            && (!(r is Indeterminate) ==> exists|j: int| 0 <= j < n && r == #[trigger] gots[j])
            // not farther from p than the single point of any part
            && (r is SinglePoint ==> forall|i: int| 0 <= i < n && (#[trigger] gots[i]) is SinglePoint ==> pdist(closest_point_of(r), p) <= pdist(closest_point_of(gots[i]), p)),
//@entry
    let ghost mut gots: Seq<Closest<F>> = Seq::empty();
//@loop 1 it
        invariant
            answers(iter@, p, gots, it.index@),
            forall|i: int| 0 <= i < gots.len() ==> !((#[trigger] gots[i]) is Intersection),
            !(best is Intersection),
            (best is Indeterminate) == (forall|i: int| 0 <= i < gots.len() ==> (#[trigger] gots[i]) is Indeterminate),
            !(best is Indeterminate) ==> exists|j: int| 0 <= j < gots.len() && best == #[trigger] gots[j],
            best is SinglePoint ==> forall|i: int| 0 <= i < gots.len() && (#[trigger] gots[i]) is SinglePoint ==> pdist(closest_point_of(best), p) <= pdist(closest_point_of(gots[i]), p),
//@after 1 `let got = element.closest_point(&p);`
        // (all hints sit here, before the step: what follows only uses best_of_two's contract)
        let ghost old_gots = gots;
        proof {
            gots = gots.push(got);
            let k = old_gots.len() as int;
            assert(gots[k] == got);
            assert(forall|i: int| #![trigger gots[i]] #![trigger old_gots[i]] 0 <= i < k ==> gots[i] == old_gots[i]);
            assert(answers(iter@, p, gots, k + 1));
            // both candidates of the step are answers of consulted parts
            assert(exists|j: int| 0 <= j < gots.len() && got == #[trigger] gots[j]);
            if !(best is Indeterminate) {
                let j = choose|j: int| 0 <= j < k && best == #[trigger] old_gots[j];
                assert(best == gots[j]);
                assert(exists|j: int| 0 <= j < gots.len() && best == #[trigger] gots[j]);
            }
        }
//@end

} // verus!
fn main() {}
