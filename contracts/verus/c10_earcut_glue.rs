// Unit c10_earcut_glue: the glue around earcutr (property C10, "corners are polygon vertices" clause).
// `earcutr::earcut` itself is an ASSUMED CONTRACT: every returned index is < number of vertices.
//@include prelude_scalar.rs
//@include prelude_std.rs
//@include prelude_types.rs
//@include frag_polygon_access.rs
verus! {

pub trait CoordFloat: CoordNum {}

impl<T: CoordNum> Polygon<T> {
    /// twin of CoordsIter::coords_count (only used as a capacity hint here)
    #[verifier::external_body]
    pub fn coords_count(&self) -> (r: usize)
        ensures r <= usize::MAX / 16     // the coordinates are in memory, 16 bytes each (f64 pairs)
    { unimplemented!() }
}

//@type geo/src/algorithm/triangulate_earcut.rs | RawTriangulation
//@type geo/src/algorithm/triangulate_earcut.rs | Iter
//@type geo/src/algorithm/triangulate_earcut.rs | EarcutrInput

/// x0, y0, x1, y1, ... of a coordinate sequence
pub open spec fn flat<T: CoordNum>(s: Seq<Coord<T>>) -> Seq<T> {
    Seq::new(2 * s.len(), |i: int| if i % 2 == 0 { s[i / 2].x } else { s[i / 2].y })
}

/// exterior followed by the first k holes, flattened
pub open spec fn flat_rings<T: CoordNum>(p: Polygon<T>, k: int) -> Seq<T>
    decreases k
{
    if k <= 0 { flat(ext(p)) } else { flat_rings(p, k - 1) + flat(ints(p)[k - 1].0@) }
}

/// number of coordinates before hole k = its start index in the vertex list
pub open spec fn hole_start<T: CoordNum>(p: Polygon<T>, k: int) -> int
    decreases k
{
    if k <= 0 { ext(p).len() as int } else { hole_start(p, k - 1) + ints(p)[k - 1].0@.len() }
}

proof fn lemma_flat_rings_len<T: CoordNum>(p: Polygon<T>, k: int)
    requires 0 <= k <= ints(p).len()
    ensures flat_rings(p, k).len() == 2 * hole_start(p, k)
    decreases k
{
    if k > 0 { lemma_flat_rings_len(p, k - 1); }
}

//@fn geo/src/algorithm/triangulate_earcut.rs | - | flat_line_string_coords_2 | id=C10.V.flat_line_string_coords_2
//@spec
    ensures final(vertices)@ == old(vertices)@ + flat(line_string.0@),
//@loop 1 it
        invariant
            vertices@.len() == old(vertices)@.len() + 2 * it.index@,
            vertices@ =~= old(vertices)@ + flat(line_string.0@).subrange(0, 2 * it.index@),
//@after 1 `vertices.push(coord.y);`
        proof {
            let k = it.index@;
            assert(flat(line_string.0@).subrange(0, 2 * (k + 1)) =~= flat(line_string.0@).subrange(0, 2 * k).push(coord.x).push(coord.y));
        }
//@end

//@fn geo/src/algorithm/triangulate_earcut.rs | - | polygon_to_earcutr_input | id=C10.V.polygon_to_earcutr_input
//@ret r
//@spec
    requires
        // the function's own debug_assert!s (every ring has >= 4 coordinates), kept as obligations
        ext(*polygon).len() >= 4,
        forall|i: int| 0 <= i < ints(*polygon).len() ==> (#[trigger] ints(*polygon)[i]).0@.len() >= 4,
    ensures
        r.vertices@ == flat_rings(*polygon, ints(*polygon).len() as int),
        r.interior_indexes@.len() == ints(*polygon).len(),
        forall|i: int| 0 <= i < ints(*polygon).len() ==> #[trigger] r.interior_indexes@[i] as int == hole_start(*polygon, i),
//@loop 1 it
        invariant
            forall|i: int| 0 <= i < ints(*polygon).len() ==> (#[trigger] ints(*polygon)[i]).0@.len() >= 4,
            vertices@ == flat_rings(*polygon, it.index@),
            interior_indexes@.len() == it.index@,
            forall|i: int| 0 <= i < it.index@ ==> #[trigger] interior_indexes@[i] as int == hole_start(*polygon, i),
//@loopentry 1
            proof { lemma_flat_rings_len(*polygon, it.index@); }
//@end

// ------------------------------------------------------------------ decoding the triangles
/// vertex i of the flattened list
pub open spec fn vertex_at<T: CoordNum>(v: Seq<T>, i: int) -> Coord<T> { Coord { x: v[2 * i], y: v[2 * i + 1] } }
/// the contract assumed of earcutr::earcut: indices address vertices
pub open spec fn indices_ok<T: CoordFloat>(t: RawTriangulation<T>) -> bool {
    forall|j: int| 0 <= j < t.triangle_indices@.len() ==> 2 * (#[trigger] t.triangle_indices@[j]) + 1 < t.vertices@.len()
}

pub closed spec fn raw<T: CoordFloat>(it: Iter<T>) -> RawTriangulation<T> { it.0 }

impl<T: CoordFloat> Iter<T> {
//@fn geo/src/algorithm/triangulate_earcut.rs | impl<T: CoordFloat> Iter<T> | triangle_index_to_coord | id=C10.V.triangle_index_to_coord
//@ret r
//@spec
    requires 2 * triangle_index + 1 < raw(*self).vertices@.len(),
    ensures r == vertex_at(raw(*self).vertices@, triangle_index as int),
//@entry
        proof { let n = self.0.vertices.len(); assert(self.0.vertices@.len() <= usize::MAX); }
//@end
}

/// X8: Verus forbids `requires` on an impl of std's Iterator; the method body is checked as an impl of this
/// local trait of the same shape, whose `next` carries the data-structure invariant as precondition
pub trait IteratorWithInvariant {
    type Item;
    spec fn inv(&self) -> bool;
    fn next(&mut self) -> Option<Self::Item>
        requires old(self).inv();
}
impl<T: CoordFloat> IteratorWithInvariant for Iter<T> {
    type Item = Triangle<T>;
    open spec fn inv(&self) -> bool { indices_ok(raw(*self)) }
//@fn geo/src/algorithm/triangulate_earcut.rs | impl<T: CoordFloat> Iterator for Iter<T> | next | id=C10.V.iter_next
//@ret r
//@spec
    ensures
        indices_ok(raw(*final(self))),
        raw(*final(self)).vertices@ == raw(*old(self)).vertices@,
        // pops exactly three indices (from the back) and decodes them as vertices of the flattened polygon
        match r {
            Some(t) => {
                let n = raw(*old(self)).triangle_indices@.len() as int;
                &&& n >= 3
                &&& raw(*final(self)).triangle_indices@ == raw(*old(self)).triangle_indices@.subrange(0, n - 3)
                &&& t.0 == vertex_at(raw(*old(self)).vertices@, raw(*old(self)).triangle_indices@[n - 1] as int)
                &&& t.1 == vertex_at(raw(*old(self)).vertices@, raw(*old(self)).triangle_indices@[n - 2] as int)
                &&& t.2 == vertex_at(raw(*old(self)).vertices@, raw(*old(self)).triangle_indices@[n - 3] as int)
            },
            None => raw(*old(self)).triangle_indices@.len() < 3,
        },
//@end
}

} // verus!
fn main() {}
