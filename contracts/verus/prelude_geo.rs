// ======================================================================================
// prelude_geo.rs -- geo's kernel / position vocabulary for Verus units.
// Enums are extracted from /repo; the Kernel trait is an ASSUMED CONTRACT (exact sign of the
// orientation determinant -- what robust::orient2d provides for floats and what the default
// body provides for integers whose products fit; the default body is verified separately in
// unit c03_kernel_exact); LineString::lines() is replaced by a Vec-returning twin with the
// contract "element i is Line{start: self.0[i], end: self.0[i+1]}" (validated by Kani
// harness c19_k_lines_twin against the real iterator).
// ======================================================================================
verus! {

//@type geo/src/algorithm/kernels/mod.rs | Orientation
impl vstd::std_specs::cmp::PartialEqSpecImpl for Orientation {
    open spec fn obeys_eq_spec() -> bool { true }
    open spec fn eq_spec(&self, other: &Self) -> bool { *self == *other }
}
//@type geo/src/algorithm/coordinate_position.rs | CoordPos
impl vstd::std_specs::cmp::PartialEqSpecImpl for CoordPos {
    open spec fn obeys_eq_spec() -> bool { true }
    open spec fn eq_spec(&self, other: &Self) -> bool { *self == *other }
}

/// exact integer point
pub struct P2 { pub x: int, pub y: int }

pub open spec fn pt<T: CoordNum>(c: Coord<T>) -> P2 { P2 { x: c.x.val(), y: c.y.val() } }

/// orientation determinant of (p, q, r): > 0 counter-clockwise
pub open spec fn cross(p: P2, q: P2, r: P2) -> int {
    (q.x - p.x) * (r.y - q.y) - (q.y - p.y) * (r.x - q.x)
}

pub open spec fn orient_spec(p: P2, q: P2, r: P2) -> Orientation {
    let c = cross(p, q, r);
    if c > 0 { Orientation::CounterClockwise } else if c < 0 { Orientation::Clockwise } else { Orientation::Collinear }
}

pub open spec fn between(v: int, a: int, b: int) -> bool { (a <= v && v <= b) || (b <= v && v <= a) }

/// p lies on the closed segment [a, b] (a == b allowed)
pub open spec fn on_segment(p: P2, a: P2, b: P2) -> bool {
    cross(a, b, p) == 0 && between(p.x, a.x, b.x) && between(p.y, a.y, b.y)
}

/// geo::kernels::Kernel -- assumed contract: the exact sign
pub trait Kernel<T: CoordNum> {
    fn orient2d(p: Coord<T>, q: Coord<T>, r: Coord<T>) -> (o: Orientation)
        ensures o == orient_spec(pt(p), pt(q), pt(r));
}

pub trait GeoNum: CoordNum {
    type Ker: Kernel<Self>;
}

pub open spec fn line_seq<T: CoordNum>(s: Seq<Coord<T>>) -> Seq<Line<T>> {
    Seq::new(if s.len() >= 1 { (s.len() - 1) as nat } else { 0 }, |i: int| Line { start: s[i], end: s[i + 1] })
}

impl<T: CoordNum> LineString<T> {
    /// twin of `LineString::lines()` (iterator adapters are outside Verus' dialect)
    #[verifier::external_body]
    pub fn lines(&self) -> (r: Vec<Line<T>>)
        ensures r@ == line_seq(self.0@)
    {
        unimplemented!()
    }
}

} // verus!
