// Unit c05_ring: `twice_signed_ring_area` (property C05: "signed_area equals the shoelace value") for rings of ANY length,
// over the exact ring scalar of prelude_exact ("machine arithmetic treated as mathematical": no overflow, no rounding).
// The function subtracts the first vertex from every coordinate before summing the determinants; the proof carries the
// shifted sum as the loop invariant and then shows (induction, translation invariance of the shoelace sum of a CLOSED
// ring) that it equals the unshifted textbook sum.  Open rings and rings with fewer than three coordinates give zero.
// The inline closure `|c|` is given its types and a ghost contract (X10); `LineString::lines()` and
// `Line::map_coords` are twins (contracts: K harness c19_k_linestring / unit c19_map).
//@include prelude_exact.rs
use vstd::std_specs::iter::IteratorSpec;
verus! {
//@type geo-types/src/geometry/coord.rs | Coord
//@type geo-types/src/geometry/line.rs | Line
//@type geo-types/src/geometry/line_string.rs | LineString
impl<T: CoordNum> vstd::std_specs::cmp::PartialEqSpecImpl for Coord<T> {
    open spec fn obeys_eq_spec() -> bool { T::obeys_eq_spec() }
    open spec fn eq_spec(&self, other: &Self) -> bool { self.x.eq_spec(&other.x) && self.y.eq_spec(&other.y) }
}
pub open spec fn ceq<T: CoordNum>(a: Coord<T>, b: Coord<T>) -> bool { a.x.val() == b.x.val() && a.y.val() == b.y.val() }

impl<T: CoordNum> vstd::std_specs::ops::SubSpecImpl for Coord<T> {
    open spec fn obeys_sub_spec() -> bool { false }
    open spec fn sub_req(self, rhs: Self) -> bool { true }
    uninterp spec fn sub_spec(self, rhs: Self) -> Self;
}
impl<T: CoordNum> core::ops::Sub for Coord<T> {
    type Output = Self;
//@fn geo-types/src/geometry/coord.rs | impl<T: CoordNum> Sub for Coord<T> | sub | id=C05.V.coord_sub
//@ret r
//@spec
        ensures r.x.val() == self.x.val() - rhs.x.val(), r.y.val() == self.y.val() - rhs.y.val(),
//@entry
        proof { T::ax_obeys(); T::ax_ring(); }
//@end
}
impl<T: CoordNum> Line<T> {
//@fn geo-types/src/geometry/line.rs | impl<T: CoordNum> Line<T> | determinant | id=C05.V.line_determinant
//@ret r
//@spec
    ensures r.val() == self.start.x.val() * self.end.y.val() - self.start.y.val() * self.end.x.val(),
//@entry
    proof { T::ax_obeys(); T::ax_ring(); }
//@end
}
pub open spec fn line_seq<T: CoordNum>(s: Seq<Coord<T>>) -> Seq<Line<T>> {
    Seq::new(if s.len() >= 1 { (s.len() - 1) as nat } else { 0 }, |i: int| Line { start: s[i], end: s[i + 1] })
}
impl<T: CoordNum> LineString<T> {
    /// twin of `LineString::lines()` (iterator adapters are outside Verus' dialect)
    #[verifier::external_body]
    pub fn lines(&self) -> (r: Vec<Line<T>>) ensures r@ == line_seq(self.0@) { unimplemented!() }
}
/// twin of geo's MapCoords for Line (its real body is proved in unit c19_map: f applied to both end points)
pub trait MapCoords<T, NT> {
    type Output;
    fn map_coords<Impl0: Fn(Coord<T>) -> Coord<NT> + Copy>(&self, func: Impl0) -> Self::Output
        where T: CoordNum, NT: CoordNum;
}
impl<T: CoordNum, NT: CoordNum> MapCoords<T, NT> for Line<T> {
    type Output = Line<NT>;
    #[verifier::external_body]
    fn map_coords<Impl0: Fn(Coord<T>) -> Coord<NT> + Copy>(&self, func: Impl0) -> (r: Line<NT>)
        ensures call_ensures(func, (self.start,), r.start), call_ensures(func, (self.end,), r.end),
    { unimplemented!() }
}

// ------------------------------------------------------------------ the shoelace sum
pub open spec fn det2(ax: int, ay: int, bx: int, by: int) -> int { ax * by - ay * bx }
/// sum of the determinants of the first k segments (twice the signed area when k = len - 1 and the ring is closed)
pub open spec fn shoelace2<T: CoordNum>(s: Seq<Coord<T>>, k: int) -> int
    decreases k
{
    if k <= 0 { 0 } else { shoelace2(s, k - 1) + det2(s[k - 1].x.val(), s[k - 1].y.val(), s[k].x.val(), s[k].y.val()) }
}
/// the same sum with every coordinate shifted by (-hx, -hy)
pub open spec fn shoelace2_shift<T: CoordNum>(s: Seq<Coord<T>>, k: int, hx: int, hy: int) -> int
    decreases k
{
    if k <= 0 { 0 } else { shoelace2_shift(s, k - 1, hx, hy) + det2(s[k - 1].x.val() - hx, s[k - 1].y.val() - hy, s[k].x.val() - hx, s[k].y.val() - hy) }
}
/// det2 of shifted points
proof fn lemma_det2_shift(ax: int, ay: int, bx: int, by: int, hx: int, hy: int)
    ensures det2(ax - hx, ay - hy, bx - hx, by - hy) == det2(ax, ay, bx, by) - hx * (by - ay) + hy * (bx - ax)
{
    assert((ax - hx) * (by - hy) == ax * by - ax * hy - hx * by + hx * hy) by (nonlinear_arith);
    assert((ay - hy) * (bx - hx) == ay * bx - ay * hx - hy * bx + hy * hx) by (nonlinear_arith);
    assert(hx * (by - ay) == hx * by - hx * ay) by (nonlinear_arith);
    assert(hy * (bx - ax) == hy * bx - hy * ax) by (nonlinear_arith);
    assert(hx * hy == hy * hx && ax * hy == hy * ax && ay * hx == hx * ay) by (nonlinear_arith);
}
/// translation changes the partial shoelace sum by a boundary term that vanishes for a closed ring
proof fn lemma_shoelace_shift<T: CoordNum>(s: Seq<Coord<T>>, k: int, hx: int, hy: int)
    requires 0 <= k < s.len()
    ensures shoelace2_shift(s, k, hx, hy) == shoelace2(s, k) - hx * (s[k].y.val() - s[0].y.val()) + hy * (s[k].x.val() - s[0].x.val())
    decreases k
{
    if k > 0 {
        lemma_shoelace_shift(s, k - 1, hx, hy);
        let (ax, ay, bx, by) = (s[k - 1].x.val(), s[k - 1].y.val(), s[k].x.val(), s[k].y.val());
        lemma_det2_shift(ax, ay, bx, by, hx, hy);
        assert(hx * (ay - s[0].y.val()) + hx * (by - ay) == hx * (by - s[0].y.val())) by (nonlinear_arith);
        assert(hy * (ax - s[0].x.val()) + hy * (bx - ax) == hy * (bx - s[0].x.val())) by (nonlinear_arith);
    } else {
        assert(hx * (s[0].y.val() - s[0].y.val()) == 0 && hy * (s[0].x.val() - s[0].x.val()) == 0) by (nonlinear_arith);
    }
}

//@fn geo/src/algorithm/area.rs | - | twice_signed_ring_area | id=C05.V.twice_signed_ring_area
//@ret r
//@spec
    ensures
        // fewer than three coordinates, or not closed: zero
        linestring.0@.len() < 3 || !ceq(linestring.0@[0], linestring.0@.last()) ==> r.val() == 0,
        // a closed ring: the textbook shoelace sum over all its segments
        linestring.0@.len() >= 3 && ceq(linestring.0@[0], linestring.0@.last()) ==> r.val() == shoelace2(linestring.0@, linestring.0@.len() - 1),
//@entry
    proof { T::ax_obeys(); T::ax_order(); T::ax_ring(); }
//@closure 1 `|c|` | c: Coord<T> | cr: Coord<T>
        ensures cr.x.val() == c.x.val() - shift.x.val(), cr.y.val() == c.y.val() - shift.y.val()
//@loop 1 it
        invariant
            T::obeys_add_spec(),
            forall|a: T, b: T| #![trigger a.add_spec(b)] #![trigger a.add_req(b)] a.add_req(b) && a.add_spec(b).val() == a.val() + b.val(),
            it.snapshot@.remaining() == line_seq(linestring.0@),
            tmp.val() == shoelace2_shift(linestring.0@, it.index@ as int, shift.x.val(), shift.y.val()),
//@loopexit 1
    proof {
        let s = linestring.0@;
        let n = s.len() as int;
        lemma_shoelace_shift(s, n - 1, shift.x.val(), shift.y.val());
        assert(shift.x.val() * (s[n - 1].y.val() - s[0].y.val()) == 0) by (nonlinear_arith) requires s[n - 1].y.val() - s[0].y.val() == 0;
        assert(shift.y.val() * (s[n - 1].x.val() - s[0].x.val()) == 0) by (nonlinear_arith) requires s[n - 1].x.val() - s[0].x.val() == 0;
    }
//@end

} // verus!
fn main() {}
