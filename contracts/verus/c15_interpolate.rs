// Unit c15_interpolate: interpolation along a Line / LineString for an ABSTRACT metric space (property C15):
// clamping to the ends, and the arc-length walk of the line string (skip whole segments while they are shorter
// than the remaining distance, then interpolate inside the first segment that is long enough; past the end: the
// last vertex; empty: None).  The metric space's own functions (length of a segment, point_at_distance_between,
// point_at_ratio_between) are ASSUMED contracts with uninterpreted results; the scalar is the exact ring of
// prelude_exact (for the subtraction of segment lengths).
//@include prelude_exact.rs
use vstd::std_specs::iter::IteratorSpec;
verus! {

//@type geo-types/src/geometry/coord.rs | Coord
//@type geo-types/src/geometry/point.rs | Point
//@type geo-types/src/geometry/line.rs | Line
//@type geo-types/src/geometry/line_string.rs | LineString

impl<T: CoordNum> Line<T> {
    #[verifier::external_body]
    pub fn start_point(&self) -> (r: Point<T>) ensures r.0 == self.start { unimplemented!() }
    #[verifier::external_body]
    pub fn end_point(&self) -> (r: Point<T>) ensures r.0 == self.end { unimplemented!() }
}
pub open spec fn line_seq<T: CoordNum>(s: Seq<Coord<T>>) -> Seq<Line<T>> {
    Seq::new(if s.len() >= 1 { (s.len() - 1) as nat } else { 0 }, |i: int| Line { start: s[i], end: s[i + 1] })
}
impl<T: CoordNum> LineString<T> {
    /// twin of `LineString::lines()` (validated by K harness c19_k_linestring)
    #[verifier::external_body]
    pub fn lines(&self) -> (r: Vec<Line<T>>) ensures r@ == line_seq(self.0@) { unimplemented!() }
    /// twin of `LineString::rev_lines()`: the segments from the last to the first, each reversed
    #[verifier::external_body]
    pub fn rev_lines(&self) -> (r: Vec<Line<T>>) ensures r@ == line_seq(rev_seq(self.0@)) { unimplemented!() }
}
pub open spec fn rev_seq<T: CoordNum>(s: Seq<Coord<T>>) -> Seq<Coord<T>> { Seq::new(s.len(), |i: int| s[s.len() - 1 - i]) }

// ---- the abstract metric space ---------------------------------------------------------------
pub uninterp spec fn m_len<F: CoordFloat>(a: Coord<F>, b: Coord<F>) -> int;
pub uninterp spec fn m_at_distance<F: CoordFloat>(a: Coord<F>, b: Coord<F>, d: int) -> Point<F>;
pub uninterp spec fn m_at_ratio<F: CoordFloat>(a: Coord<F>, b: Coord<F>, r: int) -> Point<F>;

pub trait Length<F: CoordFloat> {
    fn length(&self, geometry: &Line<F>) -> (r: F) ensures r.val() == m_len(geometry.start, geometry.end);
}
pub trait InterpolatePoint<F: CoordFloat> {
    fn point_at_distance_between(&self, start: Point<F>, end: Point<F>, distance_from_start: F) -> (r: Point<F>)
        ensures r == m_at_distance(start.0, end.0, distance_from_start.val());
    fn point_at_ratio_between(&self, start: Point<F>, end: Point<F>, ratio_from_start: F) -> (r: Point<F>)
        ensures r == m_at_ratio(start.0, end.0, ratio_from_start.val());
}

/// the arc-length walk: position at (remaining) distance d along the segments k.. of the line string
/// None: the distance reaches past the last segment (the code then answers with the last vertex; its `Option::map`
/// closures get their contract in place, X10)
pub open spec fn walk<F: CoordFloat>(s: Seq<Coord<F>>, k: int, d: int) -> Option<Point<F>>
    decreases s.len() - k
{
    if k + 1 >= s.len() { None }
    else if m_len(s[k], s[k + 1]) < d { walk(s, k + 1, d - m_len(s[k], s[k + 1])) }
    else { Some(m_at_distance(s[k], s[k + 1], d)) }
}

pub trait InterpolatableLine<F: CoordFloat> {
    type Output;
    fn point_at_ratio_from_start<MetricSpace: InterpolatePoint<F> + Length<F>>(&self, metric_space: &MetricSpace, ratio: F) -> Self::Output;
    fn point_at_ratio_from_end<MetricSpace: InterpolatePoint<F> + Length<F>>(&self, metric_space: &MetricSpace, ratio: F) -> Self::Output;
    fn point_at_distance_from_start<MetricSpace: InterpolatePoint<F> + Length<F>>(&self, metric_space: &MetricSpace, distance: F) -> Self::Output;
    fn point_at_distance_from_end<MetricSpace: InterpolatePoint<F> + Length<F>>(&self, metric_space: &MetricSpace, distance: F) -> Self::Output;
}

impl<F: CoordFloat> InterpolatableLine<F> for Line<F> {
    type Output = Point<F>;
//@fn geo/src/algorithm/line_measures/interpolate_line.rs | impl<F: CoordFloat> InterpolatableLine<F> for Line<F> | point_at_ratio_from_start | id=C15.V.line_ratio_from_start
//@ret r
//@spec
        ensures r == (if ratio.val() <= 0 { Point(self.start) } else if ratio.val() >= 1 { Point(self.end) } else { m_at_ratio(self.start, self.end, ratio.val()) }),
//@entry
        proof { F::ax_obeys(); F::ax_order(); }
//@end
//@fn geo/src/algorithm/line_measures/interpolate_line.rs | impl<F: CoordFloat> InterpolatableLine<F> for Line<F> | point_at_ratio_from_end | id=C15.V.line_ratio_from_end
//@ret r
//@spec
        ensures r == (if ratio.val() <= 0 { Point(self.end) } else if ratio.val() >= 1 { Point(self.start) } else { m_at_ratio(self.end, self.start, ratio.val()) }),
//@entry
        proof { F::ax_obeys(); F::ax_order(); }
//@end
//@fn geo/src/algorithm/line_measures/interpolate_line.rs | impl<F: CoordFloat> InterpolatableLine<F> for Line<F> | point_at_distance_from_start | id=C15.V.line_distance_from_start
//@ret r
//@spec
        ensures r == (if distance.val() <= 0 { Point(self.start) } else if distance.val() >= m_len(self.start, self.end) { Point(self.end) } else { m_at_distance(self.start, self.end, distance.val()) }),
//@entry
        proof { F::ax_obeys(); F::ax_order(); }
//@end
//@fn geo/src/algorithm/line_measures/interpolate_line.rs | impl<F: CoordFloat> InterpolatableLine<F> for Line<F> | point_at_distance_from_end | id=C15.V.line_distance_from_end
//@ret r
//@spec
        ensures r == (if distance.val() <= 0 { Point(self.end) } else if distance.val() >= m_len(self.start, self.end) { Point(self.start) } else { m_at_distance(self.end, self.start, distance.val()) }),
//@entry
        proof { F::ax_obeys(); F::ax_order(); }
//@end
}

/// the LineString walk (distance forms; the ratio forms multiply by the total length and call these)
pub trait InterpolatableLineString<F: CoordFloat> {
    type Output;
    fn point_at_distance_from_start<MetricSpace: InterpolatePoint<F> + Length<F>>(&self, metric_space: &MetricSpace, distance: F) -> Self::Output;
    fn point_at_distance_from_end<MetricSpace: InterpolatePoint<F> + Length<F>>(&self, metric_space: &MetricSpace, distance: F) -> Self::Output;
}
impl<F: CoordFloat> InterpolatableLineString<F> for LineString<F> {
    type Output = Option<Point<F>>;
#[verifier::loop_isolation(false)]   // the loop sees what the code before it established (e.g. distance > 0)
//@fn geo/src/algorithm/line_measures/interpolate_line.rs | impl<F: CoordFloat> InterpolatableLine<F> for LineString<F> | point_at_distance_from_start | id=C15.V.linestring_distance_from_start
//@ret r
//@spec
        ensures
            // None exactly for the empty line string
            (r is None) == (self.0@.len() == 0),
            // a positive distance that ends inside some segment: the arc-length walk from segment 0
            distance.val() > 0 && walk(self.0@, 0, distance.val()) is Some ==> r == walk(self.0@, 0, distance.val()),
            // clamped to the ends: a non-positive distance gives the FIRST vertex itself, a distance past the end the LAST
            distance.val() <= 0 && self.0@.len() > 0 ==> r == Some(Point(self.0@[0])),
            distance.val() > 0 && walk(self.0@, 0, distance.val()) is None && self.0@.len() > 0 ==> r == Some(Point(self.0@.last())),
//@closure * `|coord|` | coord: &Coord<F> | pp: Point<F>
            ensures pp == Point(*coord)
//@entry
        proof { F::ax_obeys(); F::ax_order(); F::ax_ring(); }
//@loop 1 it
            invariant
                F::obeys_partial_cmp_spec(), F::obeys_sub_spec(),
                forall|a: F, b: F| #![trigger a.partial_cmp_spec(&b)] a.partial_cmp_spec(&b) == Some(int_cmp(a.val(), b.val())),
                forall|a: F, b: F| #![trigger a.sub_spec(b)] #![trigger a.sub_req(b)] a.sub_req(b) && a.sub_spec(b).val() == a.val() - b.val(),
                it.snapshot@.remaining() == line_seq(self.0@),
                // (stated conditionally, so that the invariant does not depend on HOW non-positive distances are dealt with)
                // what remains to be walked from the current segment on gives the same point
                distance.val() > 0 ==> walk(self.0@, it.index@, distance_remaining.val()) == walk(self.0@, 0, distance.val()),
//@end
#[verifier::loop_isolation(false)]   // the loop sees what the code before it established (e.g. distance > 0)
//@fn geo/src/algorithm/line_measures/interpolate_line.rs | impl<F: CoordFloat> InterpolatableLine<F> for LineString<F> | point_at_distance_from_end | id=C15.V.linestring_distance_from_end
//@ret r
//@spec
        ensures
            // the same walk over the reversed line string
            (r is None) == (self.0@.len() == 0),
            distance.val() > 0 && walk(rev_seq(self.0@), 0, distance.val()) is Some ==> r == walk(rev_seq(self.0@), 0, distance.val()),
            distance.val() <= 0 && self.0@.len() > 0 ==> r == Some(Point(self.0@.last())),
            distance.val() > 0 && walk(rev_seq(self.0@), 0, distance.val()) is None && self.0@.len() > 0 ==> r == Some(Point(self.0@[0])),
//@closure * `|coord|` | coord: &Coord<F> | pp: Point<F>
            ensures pp == Point(*coord)
//@entry
        proof { F::ax_obeys(); F::ax_order(); F::ax_ring(); }
//@loop 1 it
            invariant
                F::obeys_partial_cmp_spec(), F::obeys_sub_spec(),
                forall|a: F, b: F| #![trigger a.partial_cmp_spec(&b)] a.partial_cmp_spec(&b) == Some(int_cmp(a.val(), b.val())),
                forall|a: F, b: F| #![trigger a.sub_spec(b)] #![trigger a.sub_req(b)] a.sub_req(b) && a.sub_spec(b).val() == a.val() - b.val(),
                it.snapshot@.remaining() == line_seq(rev_seq(self.0@)),
                distance.val() > 0 ==> walk(rev_seq(self.0@), it.index@, distance_remaining.val()) == walk(rev_seq(self.0@), 0, distance.val()),
//@end
}

} // verus!
fn main() {}
