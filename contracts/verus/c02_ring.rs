// Unit c02_ring: point-in-ring / comparison kernels (properties C02, C03; opaque scalar:
// decisions are taken only from orientation signs and comparisons).
//@include prelude_scalar.rs
//@include prelude_std.rs
//@include prelude_types.rs
//@include prelude_geo.rs
//@include frag_partial_ord.rs
verus! {

// ------------------------------------------------------------------ comparison helpers
//@fn geo/src/algorithm/intersects/mod.rs | - | value_in_range | id=C02.V.value_in_range
//@ret r
//@spec
    requires T::obeys_partial_cmp_spec(), po_dual::<T>(),
    ensures r == (pc_ge(value, min) && pc_le(value, max)),
//@end

//@fn geo/src/algorithm/intersects/mod.rs | - | value_in_between | id=C02.V.value_in_between
//@ret r
//@spec
    requires T::obeys_partial_cmp_spec(), po_dual::<T>(),
    ensures r == (if pc_lt(bound_1, bound_2) { pc_ge(value, bound_1) && pc_le(value, bound_2) } else { pc_ge(value, bound_2) && pc_le(value, bound_1) }),
//@end

//@fn geo/src/algorithm/intersects/mod.rs | - | point_in_rect | id=C02.V.point_in_rect
//@ret r
//@spec
    ensures r == (between(value.x.val(), bound_1.x.val(), bound_2.x.val()) && between(value.y.val(), bound_1.y.val(), bound_2.y.val())),
//@entry
        proof { T::ax_obeys(); T::ax_order(); }
//@end

impl<T: CoordNum> LineString<T> {
//@fn geo-types/src/geometry/line_string.rs | impl<T: CoordNum> LineString<T> | is_closed | id=C18.V.is_closed | props=C18
//@ret r
//@spec
    ensures r == closed(self.0@),
//@entry
    proof {
        T::ax_obeys();
        if self.0@.len() > 0 {
            T::ax_order(); T::ax_cmp(self.0@[0].x, self.0@.last().x);
            T::ax_cmp(self.0@[0].y, self.0@.last().y);
        }
    }
//@end
}

} // verus!
//@include frag_ring_spec.rs
verus! {
//@fn geo/src/algorithm/coordinate_position.rs | - | coord_pos_relative_to_ring | id=C02.V.coord_pos_relative_to_ring
//@ret r
//@spec
    requires
        closed(linestring.0@),               // the function's own debug_assert!, kept as an obligation (X4)
        linestring.0@.len() < 0x7fff_ffff,   // the winding number is counted in an i32
    ensures
        r == ring_pos(pt(coord), linestring.0@),
//@entry
    proof { T::ax_obeys(); T::ax_order(); lemma_po_dual::<T>(); }
//@loop 1 it
        invariant
            T::obeys_eq_spec(), T::obeys_partial_cmp_spec(), po_dual::<T>(),
            linestring.0@.len() >= 2,
            linestring.0@.len() < 0x7fff_ffff,
            it.snapshot@.remaining() == line_seq(linestring.0@),
            0 <= it.index@ <= linestring.0@.len() - 1,
            winding_number as int == ring_wn(pt(coord), linestring.0@, it.index@),
            none_on_ring_except_seam(pt(coord), linestring.0@, it.index@),
//@loopentry 1
        proof {
            T::ax_order();
            let k = it.index@;
            let a = linestring.0@[k];
            let b = linestring.0@[k + 1];
            assert(line == line_seq(linestring.0@)[k]);
            assert(line.start == a && line.end == b);
            lemma_wn_bound(pt(coord), linestring.0@, k);
            // wherever the body reports OnBoundary for this segment, the segment is the witness
            assert(on_seg_k(pt(coord), linestring.0@, k) ==> on_ring_before(pt(coord), linestring.0@, linestring.0@.len() - 1));
            if cross(pt(a), pt(b), pt(coord)) == 0 && pt(coord).y == pt(a).y && pt(a).y != pt(b).y {
                lemma_collinear_at_start_height(pt(a), pt(b), pt(coord));
            }
            // position of p relative to the previous segment's end = this segment's start
            if k > 0 && pt(coord) == pt(a) {
                // the previous segment ends at p: it was examined and would have returned OnBoundary
                assert(on_seg_k(pt(coord), linestring.0@, k - 1)) by {
                    let q = pt(linestring.0@[k - 1]);
                    assert(cross(q, pt(a), pt(a)) == 0) by (nonlinear_arith);
                }
            }
        }
//@loopexit 1
    proof {
        T::ax_order();
        let s = linestring.0@;
        let n = s.len() as int;
        let p = pt(coord);
        // seam: if the first segment contains p only at its start vertex, the closing segment ends there
        if on_seg_k(p, s, 0) {
            T::ax_cmp(s[0].x, s[n - 1].x); T::ax_cmp(s[0].y, s[n - 1].y);
            assert(pt(s[n - 1]) == p);
            assert(on_seg_k(p, s, n - 2)) by {
                let q = pt(s[n - 2]);
                assert(cross(q, p, p) == 0) by (nonlinear_arith);
            }
        }
        assert(!on_ring_before(p, s, n - 1));
    }
//@end

} // verus!
fn main() {}
