// Unit c15_euclid: the Euclidean interpolation kernels under every `point_at_ratio_*` / `point_at_distance_*` / densify of
// property C15 ("interpolation, location and densification agree along a line"), through the REAL operator impls of Point
// and Coord (Add, Sub, Mul<T>, Div<T>):
//   * `point_at_ratio_between(start, end, t)`  = start + (end - start) * t, axis by axis, exactly (so t = 0 gives start and
//     t = 1 gives end: lemma below);
//   * `point_at_distance_between(start, end, d)` = start + ((end - start) * d) / hypot(end - start): the quotient is named,
//     not evaluated (exact ring scalar), hypot abstract.
// ASSUMED: exact ring scalar, `hypot` a function of its arguments, the division never panics (floats).
//@include prelude_exact.rs
verus! {
pub trait FromPrimitive {}
//@type geo-types/src/geometry/coord.rs | Coord
//@type geo-types/src/geometry/point.rs | Point
//@type geo/src/algorithm/line_measures/metric_spaces/euclidean/mod.rs | Euclidean
impl<T: CoordNum> From<Coord<T>> for Point<T> {
//@fn geo-types/src/geometry/point.rs | impl<T: CoordNum> From<Coord<T>> for Point<T> | from | id=C12.V.point_from_coord | props=C12
//@ret r
//@spec
    ensures r.0 == x,
//@end
}
impl<T: CoordNum> vstd::std_specs::convert::FromSpecImpl<Coord<T>> for Point<T> {
    open spec fn obeys_from_spec() -> bool { false }
    uninterp spec fn from_spec(v: Coord<T>) -> Self;
}
impl<T: CoordNum> Point<T> {
//@fn geo-types/src/geometry/point.rs | impl<T: CoordNum> Point<T> | x | id=C12.V.point_x | props=C12
//@ret r
//@spec
    ensures r == self.0.x,
//@end
//@fn geo-types/src/geometry/point.rs | impl<T: CoordNum> Point<T> | y | id=C12.V.point_y | props=C12
//@ret r
//@spec
    ensures r == self.0.y,
//@end
}
impl<T: CoordNum> vstd::std_specs::ops::AddSpecImpl for Coord<T> {
    open spec fn obeys_add_spec() -> bool { false }
    open spec fn add_req(self, rhs: Self) -> bool { true }
    uninterp spec fn add_spec(self, rhs: Self) -> Self;
}
impl<T: CoordNum> core::ops::Add for Coord<T> {
    type Output = Self;
//@fn geo-types/src/geometry/coord.rs | impl<T: CoordNum> Add for Coord<T> | add | id=C12.V.coord_add | props=C12
//@ret r
//@spec
        ensures r.x.val() == self.x.val() + rhs.x.val(), r.y.val() == self.y.val() + rhs.y.val(),
//@entry
        proof { T::ax_obeys(); T::ax_ring(); }
//@end
}
impl<T: CoordNum> vstd::std_specs::ops::SubSpecImpl for Coord<T> {
    open spec fn obeys_sub_spec() -> bool { false }
    open spec fn sub_req(self, rhs: Self) -> bool { true }
    uninterp spec fn sub_spec(self, rhs: Self) -> Self;
}
impl<T: CoordNum> core::ops::Sub for Coord<T> {
    type Output = Self;
//@fn geo-types/src/geometry/coord.rs | impl<T: CoordNum> Sub for Coord<T> | sub | id=C12.V.coord_sub | props=C12
//@ret r
//@spec
        ensures r.x.val() == self.x.val() - rhs.x.val(), r.y.val() == self.y.val() - rhs.y.val(),
//@entry
        proof { T::ax_obeys(); T::ax_ring(); }
//@end
}
impl<T: CoordNum> vstd::std_specs::ops::MulSpecImpl<T> for Coord<T> {
    open spec fn obeys_mul_spec() -> bool { false }
    open spec fn mul_req(self, rhs: T) -> bool { true }
    uninterp spec fn mul_spec(self, rhs: T) -> Self;
}
impl<T: CoordNum> core::ops::Mul<T> for Coord<T> {
    type Output = Self;
//@fn geo-types/src/geometry/coord.rs | impl<T: CoordNum> Mul<T> for Coord<T> | mul | id=C15.V.coord_mul
//@ret r
//@spec
        ensures r.x.val() == self.x.val() * rhs.val(), r.y.val() == self.y.val() * rhs.val(),
//@entry
        proof { T::ax_obeys(); T::ax_ring(); }
//@end
}
impl<T: CoordNum> vstd::std_specs::ops::DivSpecImpl<T> for Coord<T> {
    open spec fn obeys_div_spec() -> bool { false }
    open spec fn div_req(self, rhs: T) -> bool { forall|a: T| #[trigger] a.div_req(rhs) }
    uninterp spec fn div_spec(self, rhs: T) -> Self;
}
impl<T: CoordNum> core::ops::Div<T> for Coord<T> {
    type Output = Self;
//@fn geo-types/src/geometry/coord.rs | impl<T: CoordNum> Div<T> for Coord<T> | div | id=C06.V.coord_div
//@ret r
//@spec
        ensures T::obeys_div_spec() ==> r.x == self.x.div_spec(rhs) && r.y == self.y.div_spec(rhs),
//@end
}
impl<T: CoordNum> vstd::std_specs::ops::AddSpecImpl for Point<T> {
    open spec fn obeys_add_spec() -> bool { false }
    open spec fn add_req(self, rhs: Self) -> bool { true }
    uninterp spec fn add_spec(self, rhs: Self) -> Self;
}
impl<T: CoordNum> core::ops::Add for Point<T> {
    type Output = Self;
//@fn geo-types/src/geometry/point.rs | impl<T: CoordNum> Add for Point<T> | add | id=C06.V.point_add
//@ret r
//@spec
        ensures r.0.x.val() == self.0.x.val() + rhs.0.x.val(), r.0.y.val() == self.0.y.val() + rhs.0.y.val(),
//@end
}
impl<T: CoordNum> vstd::std_specs::ops::SubSpecImpl for Point<T> {
    open spec fn obeys_sub_spec() -> bool { false }
    open spec fn sub_req(self, rhs: Self) -> bool { true }
    uninterp spec fn sub_spec(self, rhs: Self) -> Self;
}
impl<T: CoordNum> core::ops::Sub for Point<T> {
    type Output = Self;
//@fn geo-types/src/geometry/point.rs | impl<T: CoordNum> Sub for Point<T> | sub | id=C15.V.point_sub
//@ret r
//@spec
        ensures r.0.x.val() == self.0.x.val() - rhs.0.x.val(), r.0.y.val() == self.0.y.val() - rhs.0.y.val(),
//@end
}
impl<T: CoordNum> vstd::std_specs::ops::MulSpecImpl<T> for Point<T> {
    open spec fn obeys_mul_spec() -> bool { false }
    open spec fn mul_req(self, rhs: T) -> bool { true }
    uninterp spec fn mul_spec(self, rhs: T) -> Self;
}
impl<T: CoordNum> core::ops::Mul<T> for Point<T> {
    type Output = Self;
//@fn geo-types/src/geometry/point.rs | impl<T: CoordNum> Mul<T> for Point<T> | mul | id=C15.V.point_mul
//@ret r
//@spec
        ensures r.0.x.val() == self.0.x.val() * rhs.val(), r.0.y.val() == self.0.y.val() * rhs.val(),
//@end
}
impl<T: CoordNum> vstd::std_specs::ops::DivSpecImpl<T> for Point<T> {
    open spec fn obeys_div_spec() -> bool { false }
    open spec fn div_req(self, rhs: T) -> bool { forall|a: T| #[trigger] a.div_req(rhs) }
    uninterp spec fn div_spec(self, rhs: T) -> Self;
}
impl<T: CoordNum> core::ops::Div<T> for Point<T> {
    type Output = Self;
//@fn geo-types/src/geometry/point.rs | impl<T: CoordNum> Div<T> for Point<T> | div | id=C06.V.point_div
//@ret r
//@spec
        ensures T::obeys_div_spec() ==> r.0.x == self.0.x.div_spec(rhs) && r.0.y == self.0.y.div_spec(rhs),
//@end
}

/// q has the value of the quotient of a scalar carrying `num` by a scalar carrying `den`
pub open spec fn is_quot<F: CoordNum>(q: F, num: int, den: int) -> bool {
    exists|s: F, d: F| s.val() == num && d.val() == den && q.val() == (#[trigger] s.div_spec(d)).val()
}
pub trait InterpolatePoint<F: CoordFloat> {
    fn point_at_distance_between(&self, start: Point<F>, end: Point<F>, distance_from_start: F) -> Point<F>;
    fn point_at_ratio_between(&self, start: Point<F>, end: Point<F>, ratio_from_start: F) -> Point<F>;
}
impl<F: CoordFloat + FromPrimitive> InterpolatePoint<F> for Euclidean {
//@fn geo/src/algorithm/line_measures/metric_spaces/euclidean/mod.rs | impl<F: CoordFloat + FromPrimitive> InterpolatePoint<F> for Euclidean | point_at_distance_between | id=C15.V.euclid_point_at_distance
//@ret r
//@spec
        ensures
            exists|qx: F, qy: F| r.0.x.val() == start.0.x.val() + #[trigger] qx.val() && r.0.y.val() == start.0.y.val() + #[trigger] qy.val()
                && is_quot(qx, (end.0.x.val() - start.0.x.val()) * distance_from_start.val(), m_hyp(end.0.x.val() - start.0.x.val(), end.0.y.val() - start.0.y.val()))
                && is_quot(qy, (end.0.y.val() - start.0.y.val()) * distance_from_start.val(), m_hyp(end.0.x.val() - start.0.x.val(), end.0.y.val() - start.0.y.val())),
//@entry
        proof { F::ax_obeys(); F::ax_ring(); F::ax_div(); }
//@end
//@fn geo/src/algorithm/line_measures/metric_spaces/euclidean/mod.rs | impl<F: CoordFloat + FromPrimitive> InterpolatePoint<F> for Euclidean | point_at_ratio_between | id=C15.V.euclid_point_at_ratio
//@ret r
//@spec
        ensures
            r.0.x.val() == start.0.x.val() + (end.0.x.val() - start.0.x.val()) * ratio_from_start.val(),
            r.0.y.val() == start.0.y.val() + (end.0.y.val() - start.0.y.val()) * ratio_from_start.val(),
            // the end points: ratio 0 is the start, ratio 1 the end
            ratio_from_start.val() == 0 ==> r.0.x.val() == start.0.x.val() && r.0.y.val() == start.0.y.val(),
            ratio_from_start.val() == 1 ==> r.0.x.val() == end.0.x.val() && r.0.y.val() == end.0.y.val(),
//@entry
        proof { F::ax_obeys(); F::ax_ring(); }
//@end
}

} // verus!
fn main() {}
