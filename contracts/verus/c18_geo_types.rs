// Unit c18_geo_types: structural invariants of geo-types (property C18).
//@include prelude_scalar.rs
//@include prelude_std.rs
//@include prelude_types.rs
verus! {

// ------------------------------------------------------------------ LineString
impl<T: CoordNum> LineString<T> {
//@fn geo-types/src/geometry/line_string.rs | impl<T: CoordNum> LineString<T> | is_closed | id=C18.V.is_closed
//@ret r
//@spec
    ensures r == closed(self.0@),
//@entry
    proof {
        T::ax_obeys();
        if self.0@.len() > 0 {
            T::ax_order(); T::ax_cmp(self.0@[0].x, self.0@.last().x);
            T::ax_cmp(self.0@[0].y, self.0@.last().y);
        }
    }
//@end

//@fn geo-types/src/geometry/line_string.rs | impl<T: CoordNum> LineString<T> | close | id=C18.V.close
//@spec
    ensures
        closed(final(self).0@),
        // whole view: unchanged when already closed, otherwise exactly one copy of the first coordinate appended
        closed(old(self).0@) ==> final(self).0@ == old(self).0@,
        !closed(old(self).0@) ==> final(self).0@ == old(self).0@.push(old(self).0@[0]),
//@end
}

// ------------------------------------------------------------------ Polygon
// views of the private fields (the fields stay private, as in /repo)
pub closed spec fn ext<T: CoordNum>(p: Polygon<T>) -> Seq<Coord<T>> { p.exterior.0@ }
pub closed spec fn ints<T: CoordNum>(p: Polygon<T>) -> Seq<LineString<T>> { p.interiors@ }

pub open spec fn wf_polygon<T: CoordNum>(p: Polygon<T>) -> bool {
    closed(ext(p)) && all_closed(ints(p))
}

impl<T: CoordNum> Polygon<T> {
//@fn geo-types/src/geometry/polygon.rs | impl<T: CoordNum> Polygon<T> | new | id=C18.V.polygon_new
//@ret r
//@spec
    ensures wf_polygon(r),
//@loop 1 it
        invariant
            forall|j: int| 0 <= j < it.index@ ==> closed((*final(#[trigger] it.snapshot@.remaining()[j])).0@),
//@end

//@fn geo-types/src/geometry/polygon.rs | impl<T: CoordNum> Polygon<T> | exterior_mut | id=C18.V.exterior_mut
//@spec
    requires
        wf_polygon(*old(self)),
        // f may be any closure that can be called on any line string; nothing is assumed about its effect
        forall|x: &mut LineString<T>| f.requires((x,)),
    ensures
        wf_polygon(*final(self)),
        ints(*final(self)) == ints(*old(self)),
//@end

//@fn geo-types/src/geometry/polygon.rs | impl<T: CoordNum> Polygon<T> | try_exterior_mut | id=C18.V.try_exterior_mut
//@ret r
//@spec
    requires
        wf_polygon(*old(self)),
        forall|x: &mut LineString<T>| f.requires((x,)),
    ensures
        // on BOTH exits (Ok and Err)
        wf_polygon(*final(self)),
        ints(*final(self)) == ints(*old(self)),
//@end

//@fn geo-types/src/geometry/polygon.rs | impl<T: CoordNum> Polygon<T> | interiors_mut | id=C18.V.interiors_mut
//@spec
    requires
        wf_polygon(*old(self)),
        forall|x: &mut [LineString<T>]| f.requires((x,)),
    ensures
        wf_polygon(*final(self)),
        ext(*final(self)) == ext(*old(self)),
//@loop 1 it
        invariant
            forall|j: int| 0 <= j < it.index@ ==> closed((*final(#[trigger] it.snapshot@.remaining()[j])).0@),
//@end

//@fn geo-types/src/geometry/polygon.rs | impl<T: CoordNum> Polygon<T> | try_interiors_mut | id=C18.V.try_interiors_mut
//@ret r
//@spec
    requires
        wf_polygon(*old(self)),
        forall|x: &mut [LineString<T>]| f.requires((x,)),
    ensures
        // on BOTH exits (Ok and Err)
        wf_polygon(*final(self)),
        ext(*final(self)) == ext(*old(self)),
//@loop 1 it
        invariant
            forall|j: int| 0 <= j < it.index@ ==> closed((*final(#[trigger] it.snapshot@.remaining()[j])).0@),
//@end

//@fn geo-types/src/geometry/polygon.rs | impl<T: CoordNum> Polygon<T> | interiors_push | id=C18.V.interiors_push
//@spec
    requires
        wf_polygon(*old(self)),
    ensures
        wf_polygon(*final(self)),
        ext(*final(self)) == ext(*old(self)),
        // exactly one ring appended, the others untouched
        ints(*final(self)).len() == ints(*old(self)).len() + 1,
        ints(*final(self)).subrange(0, ints(*old(self)).len() as int) == ints(*old(self)),
//@end

//@fn geo-types/src/geometry/polygon.rs | impl<T: CoordNum> Polygon<T> | into_inner | id=C18.V.into_inner
//@ret r
//@spec
    ensures r.0.0@ == ext(self), r.1@ == ints(self),
//@end

//@fn geo-types/src/geometry/polygon.rs | impl<T: CoordNum> Polygon<T> | exterior | id=C18.V.exterior
//@ret r
//@spec
    ensures r.0@ == ext(*self),
//@end

//@fn geo-types/src/geometry/polygon.rs | impl<T: CoordNum> Polygon<T> | interiors | id=C18.V.interiors
//@ret r
//@spec
    ensures r@ == ints(*self),
//@end
}

// ------------------------------------------------------------------ Rect
pub closed spec fn rmin<T: CoordNum>(r: Rect<T>) -> Coord<T> { r.min }
pub closed spec fn rmax<T: CoordNum>(r: Rect<T>) -> Coord<T> { r.max }
pub open spec fn wf_rect<T: CoordNum>(r: Rect<T>) -> bool {
    rmin(r).x.val() <= rmax(r).x.val() && rmin(r).y.val() <= rmax(r).y.val()
}

impl<T: CoordNum> Rect<T> {
//@fn geo-types/src/geometry/rect.rs | impl<T: CoordNum> Rect<T> | new | id=C18.V.rect_new
//@ret r
//@spec
    requires
        // any conversion into a coordinate: nothing is assumed about what it returns
        forall|c: C| call_requires(C::into, (c,)),
    ensures
        wf_rect(r),
        // the corners are a permutation, per axis, of the converted inputs
        exists|a: Coord<T>, b: Coord<T>| call_ensures(C::into, (c1,), a) && call_ensures(C::into, (c2,), b)
            && ((rmin(r).x.val() == a.x.val() && rmax(r).x.val() == b.x.val()) || (rmin(r).x.val() == b.x.val() && rmax(r).x.val() == a.x.val()))
            && ((rmin(r).y.val() == a.y.val() && rmax(r).y.val() == b.y.val()) || (rmin(r).y.val() == b.y.val() && rmax(r).y.val() == a.y.val())),
//@entry
        proof { T::ax_obeys(); T::ax_order(); }
//@end

//@fn geo-types/src/geometry/rect.rs | impl<T: CoordNum> Rect<T> | min | id=C18.V.rect_min
//@ret r
//@spec
    ensures r == rmin(self),
//@end

//@fn geo-types/src/geometry/rect.rs | impl<T: CoordNum> Rect<T> | max | id=C18.V.rect_max
//@ret r
//@spec
    ensures r == rmax(self),
//@end

//@fn geo-types/src/geometry/rect.rs | impl<T: CoordNum> Rect<T> | has_valid_bounds | id=C18.V.rect_has_valid_bounds
//@ret r
//@spec
    ensures r == wf_rect(*self),
//@entry
        proof { T::ax_obeys(); T::ax_order(); }
//@end
// the setters panic (documented) when the new corner would break min <= max: as contracts, the panic is an obligation,
// so the precondition is "the new bounds are valid" and the postcondition the invariant
//@fn geo-types/src/geometry/rect.rs | impl<T: CoordNum> Rect<T> | assert_valid_bounds | id=C18.V.rect_assert_valid_bounds
//@spec
    requires wf_rect(*self),
//@end
//@fn geo-types/src/geometry/rect.rs | impl<T: CoordNum> Rect<T> | set_min | id=C18.V.rect_set_min
//@spec
    requires
        forall|c: C| call_requires(C::into, (c,)),
        forall|c: Coord<T>| call_ensures(C::into, (min,), c) ==> c.x.val() <= rmax(*old(self)).x.val() && c.y.val() <= rmax(*old(self)).y.val(),
    ensures
        wf_rect(*final(self)), call_ensures(C::into, (min,), rmin(*final(self))), rmax(*final(self)) == rmax(*old(self)),
//@end
//@fn geo-types/src/geometry/rect.rs | impl<T: CoordNum> Rect<T> | set_max | id=C18.V.rect_set_max
//@spec
    requires
        forall|c: C| call_requires(C::into, (c,)),
        forall|c: Coord<T>| call_ensures(C::into, (max,), c) ==> rmin(*old(self)).x.val() <= c.x.val() && rmin(*old(self)).y.val() <= c.y.val(),
    ensures
        wf_rect(*final(self)), call_ensures(C::into, (max,), rmax(*final(self))), rmin(*final(self)) == rmin(*old(self)),
//@end
}

impl<T: CoordNum> Rect<T> {
//@fn geo-types/src/geometry/rect.rs | impl<T: CoordNum> Rect<T> | to_lines | id=C18.V.rect_to_lines
//@ret r
//@spec
    ensures
        r@.len() == 4,
        // the four sides in order, each starting where the previous one ends, starting at (max.x, min.y)
        r@[0] == (Line { start: Coord { x: rmax(*self).x, y: rmin(*self).y }, end: rmax(*self) }),
        r@[1] == (Line { start: rmax(*self), end: Coord { x: rmin(*self).x, y: rmax(*self).y } }),
        r@[2] == (Line { start: Coord { x: rmin(*self).x, y: rmax(*self).y }, end: rmin(*self) }),
        r@[3] == (Line { start: rmin(*self), end: Coord { x: rmax(*self).x, y: rmin(*self).y } }),
//@end
}

// ------------------------------------------------------------------ conversions
// vstd attaches `obeys_from_spec() ==> r == from_spec(x)` to every `From::from`; we do not use that channel
// (a Vec cannot be built in spec code) and state the postcondition directly on the impl instead.
impl<T: CoordNum> vstd::std_specs::convert::FromSpecImpl<&Line<T>> for LineString<T> {
    open spec fn obeys_from_spec() -> bool { false }
    uninterp spec fn from_spec(v: &Line<T>) -> Self;
}
impl<T: CoordNum> From<&Line<T>> for LineString<T> {
//@fn geo-types/src/geometry/line_string.rs | impl<T: CoordNum> From<&Line<T>> for LineString<T> | from | id=C18.V.ls_from_line_ref
//@ret r
//@spec
    ensures r.0@.len() == 2, r.0@[0] == line.start, r.0@[1] == line.end,
//@end
}

impl<T: CoordNum> Line<T> {
//@fn geo-types/src/geometry/line.rs | impl<T: CoordNum> Line<T> | new | id=C18.V.line_new
//@ret r
//@spec
    requires forall|c: C| call_requires(C::into, (c,)),
    ensures call_ensures(C::into, (start,), r.start), call_ensures(C::into, (end,), r.end),
//@end
}

impl<T: CoordNum> Triangle<T> {
//@fn geo-types/src/geometry/triangle.rs | impl<T: CoordNum> Triangle<T> | to_lines | id=C18.V.tri_to_lines
//@ret r
//@spec
    ensures
        r@.len() == 3,
        r@[0] == (Line { start: self.0, end: self.1 }), r@[1] == (Line { start: self.1, end: self.2 }), r@[2] == (Line { start: self.2, end: self.0 }),
//@end

//@fn geo-types/src/geometry/triangle.rs | impl<T: CoordNum> Triangle<T> | to_array | id=C18.V.tri_to_array
//@ret r
//@spec
    ensures r@ == seq![self.0, self.1, self.2],
//@end
}

} // verus!
static RECT_INVALID_BOUNDS_ERROR: &str = "Failed to create Rect: 'min' coordinate's x/y value must be smaller or equal to the 'max' x/y value";
fn main() {}
