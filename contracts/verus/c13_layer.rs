// Unit c13_layer: the Translate / Scale / Rotate trait layer (property C13: "rotate, scale, skew and translate,
// including their in-place and around-point forms, equal applying the documented matrix about the documented
// origin").  AffineOps (apply a matrix to every coordinate), the matrix constructors (proved in unit c13_affine),
// centroid and bounding_rect are abstract here (ASSUMED contracts); what is decided is WHICH matrix about WHICH
// origin each method applies, and that the in-place forms apply the same one.
//@include prelude_scalar.rs
//@include prelude_std.rs
verus! {
pub trait CoordFloat: CoordNum {}
//@type geo-types/src/geometry/coord.rs | Coord
//@type geo-types/src/geometry/point.rs | Point
//@type geo-types/src/geometry/rect.rs | Rect

#[verifier::external_body] #[verifier::accept_recursive_types(T)]
pub struct AffineTransform<T: CoordNum> { _p: core::marker::PhantomData<T> }
/// the documented matrices (unit c13_affine proves the constructors build them)
pub uninterp spec fn m_translate<T: CoordNum>(x: T, y: T) -> AffineTransform<T>;
pub uninterp spec fn m_scale<T: CoordNum>(fx: T, fy: T, origin: Coord<T>) -> AffineTransform<T>;
pub uninterp spec fn m_rotate<T: CoordNum>(degrees: T, origin: Coord<T>) -> AffineTransform<T>;
pub uninterp spec fn m_skew<T: CoordNum>(xs: T, ys: T, origin: Coord<T>) -> AffineTransform<T>;
impl<T: CoordNum> AffineTransform<T> {
    #[verifier::external_body]
    pub fn translate(xoff: T, yoff: T) -> (r: Self) ensures r == m_translate(xoff, yoff) { unimplemented!() }
    #[verifier::external_body]
    pub fn scale<O: Into<Coord<T>>>(xfact: T, yfact: T, origin: O) -> (r: Self)
        ensures exists|o: Coord<T>| #[trigger] call_ensures(O::into, (origin,), o) && r == m_scale(xfact, yfact, o)
    { unimplemented!() }
    #[verifier::external_body]
    pub fn skew<O: Into<Coord<T>>>(xs: T, ys: T, origin: O) -> (r: Self)
        ensures exists|o: Coord<T>| #[trigger] call_ensures(O::into, (origin,), o) && r == m_skew(xs, ys, o)
    { unimplemented!() }
    #[verifier::external_body]
    pub fn rotate<O: Into<Coord<T>>>(degrees: T, origin: O) -> (r: Self)
        ensures exists|o: Coord<T>| #[trigger] call_ensures(O::into, (origin,), o) && r == m_rotate(degrees, o)
    { unimplemented!() }
}
impl<T: CoordNum> Rect<T> {
    #[verifier::external_body]
    pub fn center(self) -> (r: Coord<T>) ensures r == rect_center(self) { unimplemented!() }
}
pub uninterp spec fn rect_center<T: CoordNum>(r: Rect<T>) -> Coord<T>;

pub trait AffineOps<T: CoordNum>: Sized {
    /// the geometry with the matrix applied to every coordinate
    spec fn applied(&self, t: AffineTransform<T>) -> Self;
    fn affine_transform(&self, transform: &AffineTransform<T>) -> (r: Self) ensures r == self.applied(*transform);
    fn affine_transform_mut(&mut self, transform: &AffineTransform<T>) ensures *final(self) == old(self).applied(*transform);
}

// ------------------------------------------------------------------ Translate
pub trait Translate<T: CoordNum>: Sized {
    spec fn tr_applied(&self, t: AffineTransform<T>) -> Self;
    fn translate(&self, x_offset: T, y_offset: T) -> (r: Self) ensures r == self.tr_applied(m_translate(x_offset, y_offset));
    fn translate_mut(&mut self, x_offset: T, y_offset: T) ensures *final(self) == old(self).tr_applied(m_translate(x_offset, y_offset));
}
impl<T, G> Translate<T> for G
where
    T: CoordNum,
    G: AffineOps<T>,
{
    open spec fn tr_applied(&self, t: AffineTransform<T>) -> Self { self.applied(t) }
//@fn geo/src/algorithm/translate.rs | impl<T, G> Translate<T> for G where T: CoordNum, G: AffineOps<T>, | translate | id=C13.V.translate_trait
//@end
//@fn geo/src/algorithm/translate.rs | impl<T, G> Translate<T> for G where T: CoordNum, G: AffineOps<T>, | translate_mut | id=C13.V.translate_mut_trait
//@end
}

// ------------------------------------------------------------------ Scale
pub trait BoundingRect<T: CoordNum> {
    type Output;
    spec fn brect(&self) -> Self::Output;
    fn bounding_rect(&self) -> (r: Self::Output) ensures r == self.brect();
}
pub trait Scale<T: CoordNum>: Sized {
    fn scale(&self, scale_factor: T) -> Self;
    fn scale_mut(&mut self, scale_factor: T);
    fn scale_xy(&self, x_factor: T, y_factor: T) -> Self;
    fn scale_xy_mut(&mut self, x_factor: T, y_factor: T);
    fn scale_around_point(&self, x_factor: T, y_factor: T, origin: impl Into<Coord<T>>) -> Self;
    fn scale_around_point_mut(&mut self, x_factor: T, y_factor: T, origin: impl Into<Coord<T>>);
}
/// the documented scaling: about `o`
pub open spec fn scaled_about<T: CoordNum, G: AffineOps<T>>(g: G, fx: T, fy: T, o: Coord<T>) -> G { g.applied(m_scale(fx, fy, o)) }

impl<T, IR, G> Scale<T> for G
where
    T: CoordFloat,
    IR: Into<Option<Rect<T>>>,
    G: Clone + AffineOps<T> + BoundingRect<T, Output = IR>,
{
//@fn geo/src/algorithm/scale.rs | impl<T, IR, G> Scale<T> for G where T: CoordFloat, IR: Into<Option<Rect<T>>>, G: Clone + AffineOps<T> + BoundingRect<T, Output = IR>, | scale_around_point | id=C13.V.scale_around_point
//@ret r
//@spec
        ensures exists|o: Coord<T>| #[trigger] call_ensures(core::convert::Into::<Coord<T>>::into, (origin,), o) && r == scaled_about(*self, x_factor, y_factor, o),
//@end
//@fn geo/src/algorithm/scale.rs | impl<T, IR, G> Scale<T> for G where T: CoordFloat, IR: Into<Option<Rect<T>>>, G: Clone + AffineOps<T> + BoundingRect<T, Output = IR>, | scale_around_point_mut | id=C13.V.scale_around_point_mut
//@spec
        ensures exists|o: Coord<T>| #[trigger] call_ensures(core::convert::Into::<Coord<T>>::into, (origin,), o) && *final(self) == scaled_about(*old(self), x_factor, y_factor, o),
//@end
//@fn geo/src/algorithm/scale.rs | impl<T, IR, G> Scale<T> for G where T: CoordFloat, IR: Into<Option<Rect<T>>>, G: Clone + AffineOps<T> + BoundingRect<T, Output = IR>, | scale_xy | id=C13.V.scale_xy
//@ret r
//@spec
        ensures
            // about the centre of the bounding rectangle (as converted); an empty geometry is returned unchanged (a clone)
            exists|b: Option<Rect<T>>| #[trigger] call_ensures(IR::into, (self.brect(),), b) && match b {
                Some(rect) => r == scaled_about(*self, x_factor, y_factor, rect_center(rect)),
                None => call_ensures(G::clone, (self,), r),
            },
//@end
//@fn geo/src/algorithm/scale.rs | impl<T, IR, G> Scale<T> for G where T: CoordFloat, IR: Into<Option<Rect<T>>>, G: Clone + AffineOps<T> + BoundingRect<T, Output = IR>, | scale_xy_mut | id=C13.V.scale_xy_mut
//@spec
        ensures
            exists|b: Option<Rect<T>>| #[trigger] call_ensures(IR::into, (old(self).brect(),), b) && match b {
                Some(rect) => *final(self) == scaled_about(*old(self), x_factor, y_factor, rect_center(rect)),
                None => *final(self) == *old(self),
            },
//@end
//@fn geo/src/algorithm/scale.rs | impl<T, IR, G> Scale<T> for G where T: CoordFloat, IR: Into<Option<Rect<T>>>, G: Clone + AffineOps<T> + BoundingRect<T, Output = IR>, | scale | id=C13.V.scale_uniform
//@ret r
//@spec
        ensures
            exists|b: Option<Rect<T>>| #[trigger] call_ensures(IR::into, (self.brect(),), b) && match b {
                Some(rect) => r == scaled_about(*self, scale_factor, scale_factor, rect_center(rect)),
                None => call_ensures(G::clone, (self,), r),
            },
//@end
//@fn geo/src/algorithm/scale.rs | impl<T, IR, G> Scale<T> for G where T: CoordFloat, IR: Into<Option<Rect<T>>>, G: Clone + AffineOps<T> + BoundingRect<T, Output = IR>, | scale_mut | id=C13.V.scale_uniform_mut
//@spec
        ensures
            exists|b: Option<Rect<T>>| #[trigger] call_ensures(IR::into, (old(self).brect(),), b) && match b {
                Some(rect) => *final(self) == scaled_about(*old(self), scale_factor, scale_factor, rect_center(rect)),
                None => *final(self) == *old(self),
            },
//@end
}

// ------------------------------------------------------------------ Rotate
impl<T: CoordNum> Point<T> {
//@fn geo-types/src/geometry/point.rs | impl<T: CoordNum> Point<T> | x | id=C13.V.point_x
//@ret r
//@spec
    ensures r == self.0.x,
//@end
//@fn geo-types/src/geometry/point.rs | impl<T: CoordNum> Point<T> | y | id=C13.V.point_y
//@ret r
//@spec
    ensures r == self.0.y,
//@end
}
impl<T: CoordNum> vstd::std_specs::convert::FromSpecImpl<Point<T>> for Coord<T> {
    open spec fn obeys_from_spec() -> bool { false }
    uninterp spec fn from_spec(v: Point<T>) -> Self;
}
impl<T: CoordNum> From<Point<T>> for Coord<T> {
//@fn geo-types/src/geometry/coord.rs | impl<T: CoordNum> From<Point<T>> for Coord<T> | from | id=C13.V.coord_from_point
//@ret r
//@spec
    ensures r == point.0,
//@end
}
pub trait Centroid {
    type Output;
    spec fn cen(&self) -> Self::Output;
    fn centroid(&self) -> (r: Self::Output) ensures r == self.cen();
}
pub trait Rotate<T: CoordFloat>: Sized {
    /// the geometry with the matrix applied to every coordinate
    spec fn rot_applied(&self, t: AffineTransform<T>) -> Self;
    fn rotate_around_centroid(&self, degrees: T) -> Self;
    fn rotate_around_centroid_mut(&mut self, degrees: T);
    fn rotate_around_center(&self, degrees: T) -> Self;
    fn rotate_around_center_mut(&mut self, degrees: T);
    fn rotate_around_point(&self, degrees: T, point: Point<T>) -> (r: Self)
        ensures r == self.rot_applied(m_rotate(degrees, point.0));
    fn rotate_around_point_mut(&mut self, degrees: T, point: Point<T>)
        ensures *final(self) == old(self).rot_applied(m_rotate(degrees, point.0));
}
impl<G, IP, IR, T> Rotate<T> for G
where
    T: CoordFloat,
    IP: Into<Option<Point<T>>>,
    IR: Into<Option<Rect<T>>>,
    G: Clone + Centroid<Output = IP> + BoundingRect<T, Output = IR> + AffineOps<T>,
{
    open spec fn rot_applied(&self, t: AffineTransform<T>) -> Self { self.applied(t) }
//@fn geo/src/algorithm/rotate.rs | impl<G, IP, IR, T> Rotate<T> for G where T: CoordFloat, IP: Into<Option<Point<T>>>, IR: Into<Option<Rect<T>>>, G: Clone + Centroid<Output = IP> + BoundingRect<T, Output = IR> + AffineOps<T>, | rotate_around_centroid | id=C13.V.rotate_around_centroid
//@ret r
//@spec
        ensures
            // about the centroid (as converted); an empty geometry is returned unchanged (a clone)
            exists|p: Option<Point<T>>| #[trigger] call_ensures(IP::into, (self.cen(),), p) && match p {
                Some(pt) => r == self.applied(m_rotate(degrees, pt.0)),
                None => call_ensures(G::clone, (self,), r),
            },
//@end
//@fn geo/src/algorithm/rotate.rs | impl<G, IP, IR, T> Rotate<T> for G where T: CoordFloat, IP: Into<Option<Point<T>>>, IR: Into<Option<Rect<T>>>, G: Clone + Centroid<Output = IP> + BoundingRect<T, Output = IR> + AffineOps<T>, | rotate_around_centroid_mut | id=C13.V.rotate_around_centroid_mut
//@spec
        ensures
            exists|p: Option<Point<T>>| #[trigger] call_ensures(IP::into, (old(self).cen(),), p) && match p {
                Some(pt) => *final(self) == old(self).applied(m_rotate(degrees, pt.0)),
                None => *final(self) == *old(self),
            },
//@end
//@fn geo/src/algorithm/rotate.rs | impl<G, IP, IR, T> Rotate<T> for G where T: CoordFloat, IP: Into<Option<Point<T>>>, IR: Into<Option<Rect<T>>>, G: Clone + Centroid<Output = IP> + BoundingRect<T, Output = IR> + AffineOps<T>, | rotate_around_center | id=C13.V.rotate_around_center
//@ret r
//@spec
        ensures
            // about the centre of the bounding rectangle (as converted); an empty geometry is returned unchanged
            exists|b: Option<Rect<T>>| #[trigger] call_ensures(IR::into, (self.brect(),), b) && match b {
                Some(rect) => r == self.applied(m_rotate(degrees, rect_center(rect))),
                None => call_ensures(G::clone, (self,), r),
            },
//@end
//@fn geo/src/algorithm/rotate.rs | impl<G, IP, IR, T> Rotate<T> for G where T: CoordFloat, IP: Into<Option<Point<T>>>, IR: Into<Option<Rect<T>>>, G: Clone + Centroid<Output = IP> + BoundingRect<T, Output = IR> + AffineOps<T>, | rotate_around_center_mut | id=C13.V.rotate_around_center_mut
//@spec
        ensures
            exists|b: Option<Rect<T>>| #[trigger] call_ensures(IR::into, (old(self).brect(),), b) && match b {
                Some(rect) => *final(self) == old(self).applied(m_rotate(degrees, rect_center(rect))),
                None => *final(self) == *old(self),
            },
//@end
//@fn geo/src/algorithm/rotate.rs | impl<G, IP, IR, T> Rotate<T> for G where T: CoordFloat, IP: Into<Option<Point<T>>>, IR: Into<Option<Rect<T>>>, G: Clone + Centroid<Output = IP> + BoundingRect<T, Output = IR> + AffineOps<T>, | rotate_around_point | id=C13.V.rotate_around_point
//@end
//@fn geo/src/algorithm/rotate.rs | impl<G, IP, IR, T> Rotate<T> for G where T: CoordFloat, IP: Into<Option<Point<T>>>, IR: Into<Option<Rect<T>>>, G: Clone + Centroid<Output = IP> + BoundingRect<T, Output = IR> + AffineOps<T>, | rotate_around_point_mut | id=C13.V.rotate_around_point_mut
//@end
}

// ------------------------------------------------------------------ Skew
pub trait Skew<T: CoordNum>: Sized {
    fn skew(&self, degrees: T) -> Self;
    fn skew_mut(&mut self, degrees: T);
    fn skew_xy(&self, degrees_x: T, degrees_y: T) -> Self;
    fn skew_xy_mut(&mut self, degrees_x: T, degrees_y: T);
    fn skew_around_point(&self, degrees_x: T, degrees_y: T, origin: impl Into<Coord<T>>) -> Self;
    fn skew_around_point_mut(&mut self, degrees_x: T, degrees_y: T, origin: impl Into<Coord<T>>);
}
impl<T, IR, G> Skew<T> for G
where
    T: CoordFloat,
    IR: Into<Option<Rect<T>>>,
    G: Clone + AffineOps<T> + BoundingRect<T, Output = IR>,
{
//@fn geo/src/algorithm/skew.rs | impl<T, IR, G> Skew<T> for G where T: CoordFloat, IR: Into<Option<Rect<T>>>, G: Clone + AffineOps<T> + BoundingRect<T, Output = IR>, | skew_around_point | id=C13.V.skew_around_point
//@ret r
//@spec
        ensures exists|o: Coord<T>| #[trigger] call_ensures(core::convert::Into::<Coord<T>>::into, (origin,), o) && r == self.applied(m_skew(xs, ys, o)),
//@end
//@fn geo/src/algorithm/skew.rs | impl<T, IR, G> Skew<T> for G where T: CoordFloat, IR: Into<Option<Rect<T>>>, G: Clone + AffineOps<T> + BoundingRect<T, Output = IR>, | skew_around_point_mut | id=C13.V.skew_around_point_mut
//@spec
        ensures exists|o: Coord<T>| #[trigger] call_ensures(core::convert::Into::<Coord<T>>::into, (origin,), o) && *final(self) == old(self).applied(m_skew(xs, ys, o)),
//@end
//@fn geo/src/algorithm/skew.rs | impl<T, IR, G> Skew<T> for G where T: CoordFloat, IR: Into<Option<Rect<T>>>, G: Clone + AffineOps<T> + BoundingRect<T, Output = IR>, | skew_xy | id=C13.V.skew_xy
//@ret r
//@spec
        ensures
            exists|b: Option<Rect<T>>| #[trigger] call_ensures(IR::into, (self.brect(),), b) && match b {
                Some(rect) => r == self.applied(m_skew(degrees_x, degrees_y, rect_center(rect))),
                None => call_ensures(G::clone, (self,), r),
            },
//@end
//@fn geo/src/algorithm/skew.rs | impl<T, IR, G> Skew<T> for G where T: CoordFloat, IR: Into<Option<Rect<T>>>, G: Clone + AffineOps<T> + BoundingRect<T, Output = IR>, | skew_xy_mut | id=C13.V.skew_xy_mut
//@spec
        ensures
            exists|b: Option<Rect<T>>| #[trigger] call_ensures(IR::into, (old(self).brect(),), b) && match b {
                Some(rect) => *final(self) == old(self).applied(m_skew(degrees_x, degrees_y, rect_center(rect))),
                None => *final(self) == *old(self),
            },
//@end
//@fn geo/src/algorithm/skew.rs | impl<T, IR, G> Skew<T> for G where T: CoordFloat, IR: Into<Option<Rect<T>>>, G: Clone + AffineOps<T> + BoundingRect<T, Output = IR>, | skew | id=C13.V.skew
//@ret r
//@spec
        ensures
            exists|b: Option<Rect<T>>| #[trigger] call_ensures(IR::into, (self.brect(),), b) && match b {
                Some(rect) => r == self.applied(m_skew(degrees, degrees, rect_center(rect))),
                None => call_ensures(G::clone, (self,), r),
            },
//@end
//@fn geo/src/algorithm/skew.rs | impl<T, IR, G> Skew<T> for G where T: CoordFloat, IR: Into<Option<Rect<T>>>, G: Clone + AffineOps<T> + BoundingRect<T, Output = IR>, | skew_mut | id=C13.V.skew_mut
//@spec
        ensures
            exists|b: Option<Rect<T>>| #[trigger] call_ensures(IR::into, (old(self).brect(),), b) && match b {
                Some(rect) => *final(self) == old(self).applied(m_skew(degrees, degrees, rect_center(rect))),
                None => *final(self) == *old(self),
            },
//@end
}

} // verus!
fn main() {}
