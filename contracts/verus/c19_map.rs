// Unit c19_map: map_coords / try_map_coords / map_coords_in_place / try_map_coords_in_place (property C19: "map_coords
// with a function f returns the geometry of the same shape whose traversal is f applied to the original traversal,
// agreeing with map_coords_in_place and try_map_coords ... all coordinate functions f, also fallible ones failing at
// any position") -- for EVERY function f (a generic `impl Fn`, specified only through call_requires / call_ensures):
// Point, Line, Rect (which re-normalises its corners through Rect::new) and the in-place forms of LineString (any
// length).  The other impls go through iterator adaptors (`points().map(..).collect()`), outside Verus: K harnesses.
//@include prelude_scalar.rs
//@include prelude_std.rs
//@include prelude_types.rs
//@include frag_rect_access.rs
//@include frag_rect_new.rs
verus! {

//@type geo-types/src/geometry/point.rs | Point
impl<T: CoordNum> Line<T> {
    #[verifier::external_body]
    pub fn start_point(&self) -> (r: Point<T>) ensures r.0 == self.start { unimplemented!() }
    #[verifier::external_body]
    pub fn end_point(&self) -> (r: Point<T>) ensures r.0 == self.end { unimplemented!() }
//@fn geo-types/src/geometry/line.rs | impl<T: CoordNum> Line<T> | new | id=C18.V.line_new | props=C18
//@ret r
//@spec
    requires forall|c: C| call_requires(C::into, (c,)),
    ensures call_ensures(C::into, (start,), r.start), call_ensures(C::into, (end,), r.end),
//@end
}

// Local twins of the MapCoords / MapCoordsInPlace declarations.  The real trait asks `+ Copy` of every `func`; several
// impls drop that bound (rustc accepts an impl that asks less; Verus does not), so the twins carry the bounds of the impls
// whose bodies are checked (X8: the bodies are verbatim, only the trait they are filed under is local).
pub trait MapCoords<T, NT> {
    type Output;
    fn map_coords<Impl0: Fn(Coord<T>) -> Coord<NT> + Copy>(&self, func: Impl0) -> Self::Output
    where
        T: CoordNum,
        NT: CoordNum,
        requires forall|c: Coord<T>| call_requires(func, (c,));
    fn try_map_coords<E, Impl0: Fn(Coord<T>) -> Result<Coord<NT>, E> + Copy>(&self, func: Impl0) -> Result<Self::Output, E>
    where
        T: CoordNum,
        NT: CoordNum,
        requires forall|c: Coord<T>| call_requires(func, (c,));
}
pub trait MapCoordsNc<T, NT> {
    type Output;
    fn map_coords<Impl0: Fn(Coord<T>) -> Coord<NT> + Copy>(&self, func: Impl0) -> Self::Output
    where
        T: CoordNum,
        NT: CoordNum,
        requires forall|c: Coord<T>| call_requires(func, (c,));
    fn try_map_coords<E, Impl0: Fn(Coord<T>) -> Result<Coord<NT>, E>>(&self, func: Impl0) -> Result<Self::Output, E>
    where
        T: CoordNum,
        NT: CoordNum,
        requires forall|c: Coord<T>| call_requires(func, (c,));
}
pub trait MapCoordsInPlace<T> {
    fn map_coords_in_place<Impl0: Fn(Coord<T>) -> Coord<T>>(&mut self, func: Impl0)
    where
        T: CoordNum,
        requires forall|c: Coord<T>| call_requires(func, (c,));
    fn try_map_coords_in_place<E, Impl0: Fn(Coord<T>) -> Result<Coord<T>, E>>(&mut self, func: Impl0) -> Result<(), E>
    where
        T: CoordNum,
        requires forall|c: Coord<T>| call_requires(func, (c,));
}

// ------------------------------------------------------------------ Point
impl<T: CoordNum, NT: CoordNum> MapCoordsNc<T, NT> for Point<T> {
    type Output = Point<NT>;
//@fn geo/src/algorithm/map_coords.rs | impl<T: CoordNum, NT: CoordNum> MapCoords<T, NT> for Point<T> | map_coords | id=C19.V.point_map_coords
//@deimpl
//@ret r
//@spec
        ensures call_ensures(func, (self.0,), r.0),
//@end
//@fn geo/src/algorithm/map_coords.rs | impl<T: CoordNum, NT: CoordNum> MapCoords<T, NT> for Point<T> | try_map_coords | id=C19.V.point_try_map_coords
//@deimpl
//@ret r
//@spec
        ensures match r { Ok(p) => call_ensures(func, (self.0,), Ok(p.0)), Err(e) => call_ensures(func, (self.0,), Err(e)) },
//@end
}
impl<T: CoordNum> MapCoordsInPlace<T> for Point<T> {
//@fn geo/src/algorithm/map_coords.rs | impl<T: CoordNum> MapCoordsInPlace<T> for Point<T> | map_coords_in_place | id=C19.V.point_map_coords_in_place
//@deimpl
//@spec
        ensures call_ensures(func, (old(self).0,), final(self).0),
//@end
//@fn geo/src/algorithm/map_coords.rs | impl<T: CoordNum> MapCoordsInPlace<T> for Point<T> | try_map_coords_in_place | id=C19.V.point_try_map_coords_in_place
//@deimpl
//@ret r
//@spec
        ensures match r {
            Ok(()) => call_ensures(func, (old(self).0,), Ok(final(self).0)),
            // a failing f leaves the point untouched
            Err(e) => call_ensures(func, (old(self).0,), Err(e)) && *final(self) == *old(self),
        },
//@end
}

// ------------------------------------------------------------------ Line
impl<T: CoordNum, NT: CoordNum> MapCoords<T, NT> for Line<T> {
    type Output = Line<NT>;
//@fn geo/src/algorithm/map_coords.rs | impl<T: CoordNum, NT: CoordNum> MapCoords<T, NT> for Line<T> | map_coords | id=C19.V.line_map_coords
//@deimpl
//@ret r
//@spec
        ensures call_ensures(func, (self.start,), r.start), call_ensures(func, (self.end,), r.end),
//@end
//@fn geo/src/algorithm/map_coords.rs | impl<T: CoordNum, NT: CoordNum> MapCoords<T, NT> for Line<T> | try_map_coords | id=C19.V.line_try_map_coords
//@deimpl
//@ret r
//@spec
        ensures match r {
            Ok(l) => call_ensures(func, (self.start,), Ok(l.start)) && call_ensures(func, (self.end,), Ok(l.end)),
            // the error of the FIRST failing position is propagated
            Err(e) => call_ensures(func, (self.start,), Err(e))
                      || (exists|s: Coord<NT>| #[trigger] call_ensures(func, (self.start,), Ok(s)) && call_ensures(func, (self.end,), Err(e))),
        },
//@end
}
impl<T: CoordNum> MapCoordsInPlace<T> for Line<T> {
//@fn geo/src/algorithm/map_coords.rs | impl<T: CoordNum> MapCoordsInPlace<T> for Line<T> | map_coords_in_place | id=C19.V.line_map_coords_in_place
//@deimpl
//@spec
        ensures call_ensures(func, (old(self).start,), final(self).start), call_ensures(func, (old(self).end,), final(self).end),
//@end
//@fn geo/src/algorithm/map_coords.rs | impl<T: CoordNum> MapCoordsInPlace<T> for Line<T> | try_map_coords_in_place | id=C19.V.line_try_map_coords_in_place
//@deimpl
//@ret r
//@spec
        ensures match r {
            Ok(()) => call_ensures(func, (old(self).start,), Ok(final(self).start)) && call_ensures(func, (old(self).end,), Ok(final(self).end)),
            Err(e) => (call_ensures(func, (old(self).start,), Err(e)) && *final(self) == *old(self))
                      || (call_ensures(func, (old(self).start,), Ok(final(self).start)) && call_ensures(func, (old(self).end,), Err(e)) && final(self).end == old(self).end),
        },
//@end
}

// ------------------------------------------------------------------ Rect (re-normalised through Rect::new)
impl<T: CoordNum, NT: CoordNum> MapCoordsNc<T, NT> for Rect<T> {
    type Output = Rect<NT>;
//@fn geo/src/algorithm/map_coords.rs | impl<T: CoordNum, NT: CoordNum> MapCoords<T, NT> for Rect<T> | map_coords | id=C19.V.rect_map_coords
//@deimpl
//@ret r
//@spec
        ensures
            wf_rect(r),
            // per axis, the corners are the images of min and max in some order
            exists|a: Coord<NT>, b: Coord<NT>| #[trigger] call_ensures(func, (rmin(*self),), a) && #[trigger] call_ensures(func, (rmax(*self),), b)
                && ((rmin(r).x.val() == a.x.val() && rmax(r).x.val() == b.x.val()) || (rmin(r).x.val() == b.x.val() && rmax(r).x.val() == a.x.val()))
                && ((rmin(r).y.val() == a.y.val() && rmax(r).y.val() == b.y.val()) || (rmin(r).y.val() == b.y.val() && rmax(r).y.val() == a.y.val())),
//@end
//@fn geo/src/algorithm/map_coords.rs | impl<T: CoordNum, NT: CoordNum> MapCoords<T, NT> for Rect<T> | try_map_coords | id=C19.V.rect_try_map_coords
//@deimpl
//@ret r
//@spec
        ensures match r {
            Ok(q) => wf_rect(q) && (exists|a: Coord<NT>, b: Coord<NT>| #[trigger] call_ensures(func, (rmin(*self),), Ok(a)) && #[trigger] call_ensures(func, (rmax(*self),), Ok(b))
                && ((rmin(q).x.val() == a.x.val() && rmax(q).x.val() == b.x.val()) || (rmin(q).x.val() == b.x.val() && rmax(q).x.val() == a.x.val()))
                && ((rmin(q).y.val() == a.y.val() && rmax(q).y.val() == b.y.val()) || (rmin(q).y.val() == b.y.val() && rmax(q).y.val() == a.y.val()))),
            Err(e) => call_ensures(func, (rmin(*self),), Err(e))
                      || (exists|a: Coord<NT>| #[trigger] call_ensures(func, (rmin(*self),), Ok(a)) && call_ensures(func, (rmax(*self),), Err(e))),
        },
//@end
}

impl<T: CoordNum> MapCoordsInPlace<T> for Rect<T> {
//@fn geo/src/algorithm/map_coords.rs | impl<T: CoordNum> MapCoordsInPlace<T> for Rect<T> | map_coords_in_place | id=C19.V.rect_map_coords_in_place
//@deimpl
//@spec
        ensures
            wf_rect(*final(self)),
            exists|a: Coord<T>, b: Coord<T>| #[trigger] call_ensures(func, (rmin(*old(self)),), a) && #[trigger] call_ensures(func, (rmax(*old(self)),), b)
                && ((rmin(*final(self)).x.val() == a.x.val() && rmax(*final(self)).x.val() == b.x.val()) || (rmin(*final(self)).x.val() == b.x.val() && rmax(*final(self)).x.val() == a.x.val()))
                && ((rmin(*final(self)).y.val() == a.y.val() && rmax(*final(self)).y.val() == b.y.val()) || (rmin(*final(self)).y.val() == b.y.val() && rmax(*final(self)).y.val() == a.y.val())),
//@end
//@fn geo/src/algorithm/map_coords.rs | impl<T: CoordNum> MapCoordsInPlace<T> for Rect<T> | try_map_coords_in_place | id=C19.V.rect_try_map_coords_in_place
//@deimpl
//@ret r
//@spec
        ensures match r {
            Ok(()) => wf_rect(*final(self)) && (exists|a: Coord<T>, b: Coord<T>| #[trigger] call_ensures(func, (rmin(*old(self)),), Ok(a)) && #[trigger] call_ensures(func, (rmax(*old(self)),), Ok(b))
                && ((rmin(*final(self)).x.val() == a.x.val() && rmax(*final(self)).x.val() == b.x.val()) || (rmin(*final(self)).x.val() == b.x.val() && rmax(*final(self)).x.val() == a.x.val()))
                && ((rmin(*final(self)).y.val() == a.y.val() && rmax(*final(self)).y.val() == b.y.val()) || (rmin(*final(self)).y.val() == b.y.val() && rmax(*final(self)).y.val() == a.y.val()))),
            // a failing f leaves the rectangle untouched
            Err(e) => *final(self) == *old(self) && (call_ensures(func, (rmin(*old(self)),), Err(e))
                      || (exists|a: Coord<T>| #[trigger] call_ensures(func, (rmin(*old(self)),), Ok(a)) && call_ensures(func, (rmax(*old(self)),), Err(e)))),
        },
//@end
}

// ------------------------------------------------------------------ LineString, in place (any length)
impl<T: CoordNum> MapCoordsInPlace<T> for LineString<T> {
//@fn geo/src/algorithm/map_coords.rs | impl<T: CoordNum> MapCoordsInPlace<T> for LineString<T> | map_coords_in_place | id=C19.V.linestring_map_coords_in_place
//@deimpl
//@spec
        ensures
            final(self).0@.len() == old(self).0@.len(),
            forall|i: int| 0 <= i < old(self).0@.len() ==> call_ensures(func, (old(self).0@[i],), #[trigger] final(self).0@[i]),
//@loop 1 it
            invariant
                forall|c: Coord<T>| call_requires(func, (c,)),
                forall|j: int| 0 <= j < it.index@ ==> call_ensures(func, (old(self).0@[j],), *final(#[trigger] it.snapshot@.remaining()[j])),
//@end
//@fn geo/src/algorithm/map_coords.rs | impl<T: CoordNum> MapCoordsInPlace<T> for LineString<T> | try_map_coords_in_place | id=C19.V.linestring_try_map_coords_in_place
//@deimpl
//@ret r
//@spec
        ensures
            final(self).0@.len() == old(self).0@.len(),
            match r {
                Ok(()) => forall|i: int| 0 <= i < old(self).0@.len() ==> call_ensures(func, (old(self).0@[i],), Ok(#[trigger] final(self).0@[i])),
                // the error of the FIRST failing position k; the coordinates before k are mapped
                Err(e) => exists|k: int| 0 <= k < old(self).0@.len() && #[trigger] call_ensures(func, (old(self).0@[k],), Err(e))
                            && (forall|i: int| 0 <= i < k ==> call_ensures(func, (old(self).0@[i],), Ok(#[trigger] final(self).0@[i]))),
            },
//@loop 1 it
            invariant
                forall|c: Coord<T>| call_requires(func, (c,)),
                forall|j: int| 0 <= j < it.index@ ==> call_ensures(func, (old(self).0@[j],), Ok(*final(#[trigger] it.snapshot@.remaining()[j]))),
//@end
}

} // verus!
fn main() {}
