// Unit c07_lines: the branch structure of the linear Euclidean distance impls (property C07: "exactly zero precisely when
// the geometries intersect", "pairs whose closest approach is vertex-vertex, vertex-edge ...", "a geometry inside a hole
// of a polygon"):
//   * Line x Line: 0 when the segments intersect, otherwise the minimum over ALL FOUR end-point-to-segment distances
//     (both end points of a against b, both end points of b against a);
//   * LineString x LineString: 0 when they intersect, otherwise the ring-to-ring nearest-neighbour distance;
//   * LineString x Polygon: 0 when they intersect; when the polygon has holes and the line string's first vertex is
//     strictly inside the shell, the minimum over ALL hole rings (any number of holes); otherwise the distance to the shell.
// The leaf kernels are abstract (ASSUMED contracts): the `intersects` impls (segment x segment proved in unit c02_multi),
// the point-to-segment distance (unit c07_segment), `ring_contains_coord`, `nearest_neighbour_distance` (R-tree search),
// the scalar's `min` / `max_value`.
//@include prelude_scalar.rs
//@include prelude_std.rs
//@include prelude_types.rs
//@include frag_polygon_access.rs
verus! {

pub trait GeoFloat: CoordNum {
    /// num_traits::Float::min on non-NaN values
    fn min(self, other: Self) -> (r: Self)
        ensures r.val() == (if self.val() <= other.val() { self.val() } else { other.val() });
    fn zero() -> (r: Self) ensures r.val() == 0;
}
/// num_traits::Float / Bounded as used here: `Float::max_value()`
pub trait Float: Sized {
    spec fn fval(self) -> int;
    fn max_value() -> (r: Self) ensures forall|x: Self| #[trigger] x.fval() <= r.fval();
}
pub trait DistNum: GeoFloat + Float {
    proof fn ax_fval() ensures forall|x: Self| #[trigger] x.fval() == x.val();
}

//@type geo/src/algorithm/line_measures/metric_spaces/euclidean/mod.rs | Euclidean
//@type geo-types/src/geometry/point.rs | Point

pub uninterp spec fn seg_meets<F: CoordNum>(a: Line<F>, b: Line<F>) -> bool;
pub uninterp spec fn ls_meets<F: CoordNum>(a: Seq<Coord<F>>, b: Seq<Coord<F>>) -> bool;
pub uninterp spec fn ls_poly_meets<F: CoordNum>(a: Seq<Coord<F>>, b: Polygon<F>) -> bool;
pub uninterp spec fn strictly_inside_ring<F: CoordNum>(ring: Seq<Coord<F>>, c: Coord<F>) -> bool;
pub uninterp spec fn nnd<F: CoordNum>(a: Seq<Coord<F>>, b: Seq<Coord<F>>) -> int;
/// distance from a coordinate to a segment (unit c07_segment: line_segment_distance)
pub uninterp spec fn pl_dist<F: CoordNum>(p: Coord<F>, l: Line<F>) -> int;

pub trait Intersects<Rhs = Self> { fn intersects(&self, rhs: &Rhs) -> bool; }
impl<F: DistNum> Intersects<Line<F>> for Line<F> {
    #[verifier::external_body]
    fn intersects(&self, rhs: &Line<F>) -> (r: bool) ensures r == seg_meets(*self, *rhs) { unimplemented!() }
}
impl<F: DistNum> Intersects<LineString<F>> for LineString<F> {
    #[verifier::external_body]
    fn intersects(&self, rhs: &LineString<F>) -> (r: bool) ensures r == ls_meets(self.0@, rhs.0@) { unimplemented!() }
}
impl<F: DistNum> Intersects<Polygon<F>> for LineString<F> {
    #[verifier::external_body]
    fn intersects(&self, rhs: &Polygon<F>) -> (r: bool) ensures r == ls_poly_meets(self.0@, *rhs) { unimplemented!() }
}
#[verifier::external_body]
fn ring_contains_coord<T: DistNum>(ring: &LineString<T>, c: Coord<T>) -> (r: bool)
    ensures r == strictly_inside_ring(ring.0@, c)
{ unimplemented!() }
#[verifier::external_body]
fn nearest_neighbour_distance<F: DistNum>(geom1: &LineString<F>, geom2: &LineString<F>) -> (r: F)
    ensures r.val() == nnd(geom1.0@, geom2.0@)
{ unimplemented!() }
impl<T: CoordNum> Line<T> {
    /// twins of Line::start_point / end_point (`Point::from(self.start)`; Point::from proved in unit c12_closest)
    #[verifier::external_body]
    pub fn start_point(&self) -> (r: Point<T>) ensures r.0 == self.start { unimplemented!() }
    #[verifier::external_body]
    pub fn end_point(&self) -> (r: Point<T>) ensures r.0 == self.end { unimplemented!() }
}

/// minimum of nnd(ls, hole) over the first k holes, starting from `inf` (the scalar's max_value: >= every scalar)
pub open spec fn min_over_holes<F: CoordNum>(ls: Seq<Coord<F>>, holes: Seq<LineString<F>>, k: int, inf: int) -> int
    decreases k
{
    if k <= 0 { inf } else {
        let m = min_over_holes(ls, holes, k - 1, inf);
        let d = nnd(ls, holes[k - 1].0@);
        if m <= d { m } else { d }
    }
}
pub open spec fn imin(a: int, b: int) -> int { if a <= b { a } else { b } }

pub trait Distance<F, Origin, Destination> {
    spec fn dist_pre(&self, origin: Origin, destination: Destination) -> bool;
    fn distance(&self, origin: Origin, destination: Destination) -> F
        requires self.dist_pre(origin, destination);
}
impl<F: DistNum> Distance<F, &Point<F>, &Line<F>> for Euclidean {
    open spec fn dist_pre(&self, origin: &Point<F>, destination: &Line<F>) -> bool { true }
    #[verifier::external_body]
    fn distance(&self, origin: &Point<F>, destination: &Line<F>) -> (r: F) ensures r.val() == pl_dist(origin.0, *destination) { unimplemented!() }
}

impl<F: DistNum> Distance<F, &Line<F>, &Line<F>> for Euclidean {
    open spec fn dist_pre(&self, line_a: &Line<F>, line_b: &Line<F>) -> bool { true }
//@fn geo/src/algorithm/line_measures/metric_spaces/euclidean/distance.rs | impl<F: GeoFloat> Distance<F, &Line<F>, &Line<F>> for Euclidean | distance | id=C07.V.line_line_distance
//@ret r
//@spec
        ensures
            seg_meets(*line_a, *line_b) ==> r.val() == 0,
            // every end point is measured against the other segment
            !seg_meets(*line_a, *line_b) ==> r.val() == imin(imin(imin(pl_dist(line_a.start, *line_b), pl_dist(line_a.end, *line_b)), pl_dist(line_b.start, *line_a)), pl_dist(line_b.end, *line_a)),
//@end
}

impl<F: DistNum> Distance<F, &LineString<F>, &LineString<F>> for Euclidean {
    open spec fn dist_pre(&self, line_string_a: &LineString<F>, line_string_b: &LineString<F>) -> bool { true }
//@fn geo/src/algorithm/line_measures/metric_spaces/euclidean/distance.rs | impl<F: GeoFloat> Distance<F, &LineString<F>, &LineString<F>> for Euclidean | distance | id=C07.V.linestring_linestring_distance
//@ret r
//@spec
        ensures
            ls_meets(line_string_a.0@, line_string_b.0@) ==> r.val() == 0,
            !ls_meets(line_string_a.0@, line_string_b.0@) ==> r.val() == nnd(line_string_a.0@, line_string_b.0@),
//@end
}

impl<F: DistNum> Distance<F, &LineString<F>, &Polygon<F>> for Euclidean {
    /// (the code indexes the first vertex of the line string when the polygon has holes: the FIXME in the source)
    open spec fn dist_pre(&self, line_string: &LineString<F>, polygon: &Polygon<F>) -> bool { line_string.0@.len() > 0 }
//@fn geo/src/algorithm/line_measures/metric_spaces/euclidean/distance.rs | impl<F: GeoFloat> Distance<F, &LineString<F>, &Polygon<F>> for Euclidean | distance | id=C07.V.linestring_polygon_branches
//@ret r
//@spec
        ensures
            ls_poly_meets(line_string.0@, *polygon) ==> r.val() == 0,
            // inside the shell without meeting the polygon: in one of the holes -- the minimum over ALL hole rings
            !ls_poly_meets(line_string.0@, *polygon) && ints(*polygon).len() > 0 && strictly_inside_ring(ext(*polygon), line_string.0@[0]) ==>
                exists|inf: int| r.val() == #[trigger] min_over_holes(line_string.0@, ints(*polygon), ints(*polygon).len() as int, inf),
            // otherwise: to the shell
            !ls_poly_meets(line_string.0@, *polygon) && !(ints(*polygon).len() > 0 && strictly_inside_ring(ext(*polygon), line_string.0@[0])) ==>
                r.val() == nnd(line_string.0@, ext(*polygon)),
//@after 1 `let mut mindist: F = Float::max_value();`
            let ghost inf1 = mindist.val();
            proof { F::ax_fval(); }
//@loop 1 it
                invariant
                    mindist.val() == min_over_holes(line_string.0@, ints(*polygon), it.index@, inf1),
//@end
}

} // verus!
fn main() {}
