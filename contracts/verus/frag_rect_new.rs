// fragment: Rect::new with its contract (as in unit c18_geo_types); needs frag_rect_access.rs
verus! {
pub open spec fn wf_rect<T: CoordNum>(r: Rect<T>) -> bool {
    rmin(r).x.val() <= rmax(r).x.val() && rmin(r).y.val() <= rmax(r).y.val()
}
impl<T: CoordNum> Rect<T> {
//@fn geo-types/src/geometry/rect.rs | impl<T: CoordNum> Rect<T> | new | id=C18.V.rect_new | props=C18
//@ret r
//@spec
    requires
        // any conversion into a coordinate: nothing is assumed about what it returns
        forall|c: C| call_requires(C::into, (c,)),
    ensures
        wf_rect(r),
        // the corners are a permutation, per axis, of the converted inputs
        exists|a: Coord<T>, b: Coord<T>| call_ensures(C::into, (c1,), a) && call_ensures(C::into, (c2,), b)
            && ((rmin(r).x.val() == a.x.val() && rmax(r).x.val() == b.x.val()) || (rmin(r).x.val() == b.x.val() && rmax(r).x.val() == a.x.val()))
            && ((rmin(r).y.val() == a.y.val() && rmax(r).y.val() == b.y.val()) || (rmin(r).y.val() == b.y.val() && rmax(r).y.val() == a.y.val())),
//@entry
        proof { T::ax_obeys(); T::ax_order(); }
//@end

}
}
