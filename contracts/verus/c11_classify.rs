// Unit c11_classify: the classification logic of `line_intersection` (property C11), for ALL scalars that are ordered
// like `val` and ANY orientation kernel returning the exact sign (ASSUMED contract of RobustKernel::orient2d, as in the
// C02 units; the K harnesses of C11 decide the same contract completely on a lattice with the real kernel stubbed).
// Proved here (unbounded):
//   * an IMPROPER single point is bit-identical to an end point of one segment and that end point lies ON the other
//     segment (geometric lemma: a point of the carrier line of ab, with a and b on opposite closed sides of cd, is
//     between a and b);
//   * `is_proper` exactly when all four orientations are strict (the crossing is interior to both segments);
//   * Collinear only when all four orientations are collinear, and then `collinear_intersection` (extracted too, with
//     its nested helper fns) answers None exactly when no end point of one segment lies on the other, a single
//     improper point exactly when one end point is the only common one, and otherwise the exact shared sub-segment:
//     its ends are bit-identical copies of input end points lying on both segments, every common end point lies on
//     it, and it has more than one point (1-D ordering argument along the common carrier line);
//   * every Some(..) answer implies the textbook `seg_meet`; None only after envelope rejection, a strict same-side
//     test, or the collinear case analysis answering None.
// Both functions are specified for NON-DEGENERATE segments (as the K harnesses; zero-length input is covered there).
//   * `None` EXACTLY when the segments share no point: the envelope rejection and the strict same-side rejection are
//     proved sound (crossing segments have intersecting envelopes: the crossing point is computed from either segment
//     and bounded on each axis; a point of one segment on the other's carrier line puts the ends on opposite sides).
// NOT proved: anything about the coordinates of a proper point.
// ASSUMED: bounding_rect of a Line = componentwise min / max, Rect x Rect and Rect x Coord `intersects` (proved in
// units c19_minmax / c02_intersects), `proper_intersection` (abstract result).
//@include prelude_scalar.rs
//@include prelude_std.rs
//@include prelude_types.rs
//@include prelude_geo.rs
//@include frag_rect_access.rs
//@include frag_seg_geometry.rs
verus! {

pub trait GeoFloat: GeoNum {}
//@type geo/src/algorithm/line_intersection.rs | LineIntersection
//@type geo/src/algorithm/kernels/robust.rs | RobustKernel
impl<T: GeoFloat> Kernel<T> for RobustKernel {
    #[verifier::external_body]
    fn orient2d(p: Coord<T>, q: Coord<T>, r: Coord<T>) -> (o: Orientation) { unimplemented!() }
}
pub mod kernels { pub use super::Kernel; pub use super::Orientation; pub use super::RobustKernel; }

// ------------------------------------------------------------------ assumed collaborators
pub open spec fn wf_rect<T: CoordNum>(r: Rect<T>) -> bool { pt(rmin(r)).x <= pt(rmax(r)).x && pt(rmin(r)).y <= pt(rmax(r)).y }
pub open spec fn rect_of<T: CoordNum>(r: Rect<T>, a: P2, b: P2) -> bool {
    pt(rmin(r)) == (P2 { x: imin(a.x, b.x), y: imin(a.y, b.y) }) && pt(rmax(r)) == (P2 { x: imax(a.x, b.x), y: imax(a.y, b.y) })
}
pub trait BoundingRect<T: CoordNum> { type Output; fn bounding_rect(&self) -> Self::Output; }
impl<T: CoordNum> BoundingRect<T> for Line<T> {
    type Output = Rect<T>;
    #[verifier::external_body]
    fn bounding_rect(&self) -> (r: Rect<T>) ensures rect_of(r, pt(self.start), pt(self.end)) { unimplemented!() }
}
pub trait Intersects<Rhs = Self> { fn intersects(&self, rhs: &Rhs) -> bool; }
impl<T: CoordNum> Intersects<Rect<T>> for Rect<T> {
    #[verifier::external_body]
    fn intersects(&self, other: &Rect<T>) -> (r: bool)
        ensures r == !(pt(rmax(*self)).x < pt(rmin(*other)).x || pt(rmax(*self)).y < pt(rmin(*other)).y
                       || pt(rmin(*self)).x > pt(rmax(*other)).x || pt(rmin(*self)).y > pt(rmax(*other)).y)
    { unimplemented!() }
}
impl<T: CoordNum> Intersects<Coord<T>> for Rect<T> {
    #[verifier::external_body]
    fn intersects(&self, c: &Coord<T>) -> (r: bool)
        ensures r == (pt(rmin(*self)).x <= pt(*c).x && pt(*c).x <= pt(rmax(*self)).x && pt(rmin(*self)).y <= pt(*c).y && pt(*c).y <= pt(rmax(*self)).y)
    { unimplemented!() }
}
pub uninterp spec fn m_proper<F: GeoFloat>(p: Line<F>, q: Line<F>) -> Coord<F>;
#[verifier::external_body]
fn proper_intersection<F: GeoFloat>(p: Line<F>, q: Line<F>) -> (r: Coord<F>) ensures r == m_proper(p, q) { unimplemented!() }

// ------------------------------------------------------------------ the collinear case analysis
/// no end point of one segment lies on the other
pub open spec fn collinear_none(a: P2, b: P2, c: P2, d: P2) -> bool {
    !on_segment(c, a, b) && !on_segment(d, a, b) && !on_segment(a, c, d) && !on_segment(b, c, d)
}
/// e (an end point of p or q) lies on both segments
pub open spec fn common(e: P2, a: P2, b: P2, c: P2, d: P2) -> bool { on_segment(e, a, b) && on_segment(e, c, d) }
pub open spec fn is_end<F: GeoFloat>(x: Coord<F>, p: Line<F>, q: Line<F>) -> bool { x == p.start || x == p.end || x == q.start || x == q.end }
/// contract of the collinear analysis (all four orientations vanish)
pub open spec fn collinear_post<F: GeoFloat>(p: Line<F>, q: Line<F>, r: Option<LineIntersection<F>>) -> bool {
    let (a, b, c, d) = (pt(p.start), pt(p.end), pt(q.start), pt(q.end));
    match r {
        // None exactly when the segments share no point
        None => collinear_none(a, b, c, d),
        // the exact shared sub-segment: its ends are (bit-identical copies of) input end points lying on both segments,
        // and every input end point that lies on both segments lies on it
        Some(LineIntersection::Collinear { intersection: l }) => {
            let (s, e) = (pt(l.start), pt(l.end));
            &&& is_end(l.start, p, q) && is_end(l.end, p, q)
            &&& common(s, a, b, c, d) && common(e, a, b, c, d)
            &&& (common(a, a, b, c, d) ==> in_box(a, s, e)) && (common(b, a, b, c, d) ==> in_box(b, s, e))
            &&& (common(c, a, b, c, d) ==> in_box(c, s, e)) && (common(d, a, b, c, d) ==> in_box(d, s, e))
            // more than one point (for non-degenerate input)
            &&& (a != b && c != d ==> s != e)
        }
        // a single shared end point: improper, bit-identical to that end point, and the only common end point
        Some(LineIntersection::SinglePoint { intersection: x, is_proper }) => {
            &&& !is_proper && is_end(x, p, q) && common(pt(x), a, b, c, d)
            &&& (common(a, a, b, c, d) ==> a == pt(x)) && (common(b, a, b, c, d) ==> b == pt(x))
            &&& (common(c, a, b, c, d) ==> c == pt(x)) && (common(d, a, b, c, d) ==> d == pt(x))
        }
    }
}
impl<T: CoordNum> Line<T> {
//@fn geo-types/src/geometry/line.rs | impl<T: CoordNum> Line<T> | new | id=C18.V.line_new | props=C18
//@ret r
//@spec
    requires forall|c: C| call_requires(C::into, (c,)),
    ensures call_ensures(C::into, (start,), r.start), call_ensures(C::into, (end,), r.end),
//@end
}
//@fn geo/src/algorithm/line_intersection.rs | - | collinear_intersection | id=C11.V.collinear_intersection
//@ret r
//@spec
    requires
        ({ let (a, b, c, d) = (pt(p.start), pt(p.end), pt(q.start), pt(q.end));
           cross(a, b, c) == 0 && cross(a, b, d) == 0 && cross(c, d, a) == 0 && cross(c, d, b) == 0
           // (non-degenerate segments, as in the K harnesses of C11)
           && a != b && c != d }),
    ensures collinear_post(p, q, r),
//@nested collinear li
        ensures li == (LineIntersection::Collinear { intersection }),
//@nested improper li
        ensures li == (LineIntersection::SinglePoint { intersection, is_proper: false }),
//@entry
    proof {
        F::ax_obeys(); F::ax_order();
        let (a, b, c, d) = (pt(p.start), pt(p.end), pt(q.start), pt(q.end));
        lemma_ends_on_segment(a, b); lemma_ends_on_segment(c, d);
        lemma_collinear_1d(a, b, c); lemma_collinear_1d(a, b, d); lemma_collinear_1d(c, d, a); lemma_collinear_1d(c, d, b);
        lemma_collinear_distinct_x(a, b, c, d);
    }
//@end

impl<F: GeoFloat> LineIntersection<F> {
//@fn geo/src/algorithm/line_intersection.rs | impl<F: GeoFloat> LineIntersection<F> | is_proper | id=C11.V.is_proper
//@ret r
//@spec
        ensures r == (match *self { LineIntersection::SinglePoint { is_proper, .. } => is_proper, LineIntersection::Collinear { .. } => false }),
//@end
}

//@fn geo/src/algorithm/line_intersection.rs | - | line_intersection | id=C11.V.line_intersection
//@ret r
//@spec
    requires
        // non-degenerate segments (as in the K harnesses of C11; zero-length segments are covered there, on the lattice)
        pt(p.start) != pt(p.end), pt(q.start) != pt(q.end),
    ensures
        ({
            let (a, b, c, d) = (pt(p.start), pt(p.end), pt(q.start), pt(q.end));
            let all_collinear = cross(a, b, c) == 0 && cross(a, b, d) == 0 && cross(c, d, a) == 0 && cross(c, d, b) == 0;
            // None EXACTLY when the segments share no point (textbook test; the two rejections are proved sound below)
            &&& (r is None) == !seg_meet(a, b, c, d)
            // None only after: envelope rejection, both ends of one segment strictly on one side of the other, or the collinear analysis
            &&& (r is None ==> boxes_disjoint(a, b, c, d) || same_strict_side(cross(a, b, c), cross(a, b, d)) || same_strict_side(cross(c, d, a), cross(c, d, b))
                               || (all_collinear && collinear_none(a, b, c, d)))
            // all four orientations collinear: the collinear case analysis decides (unit: assumed contract m_collinear)
            &&& (!boxes_disjoint(a, b, c, d) && all_collinear ==> collinear_post(p, q, r))
            &&& (!all_collinear ==> match r {
                    None => true,
                    Some(LineIntersection::Collinear { .. }) => false,
                    Some(LineIntersection::SinglePoint { intersection: x, is_proper }) => {
                        // every answer is a real intersection (textbook test)
                        &&& seg_meet(a, b, c, d)
                        // proper exactly when the crossing is interior to both segments: no end point on the other carrier line
                        &&& is_proper == (cross(a, b, c) != 0 && cross(a, b, d) != 0 && cross(c, d, a) != 0 && cross(c, d, b) != 0)
                        &&& (is_proper ==> x == m_proper(p, q))
                        // improper: bit-identical to an end point that lies ON the other segment
                        &&& (!is_proper ==> (x == p.start && on_segment(a, c, d)) || (x == p.end && on_segment(b, c, d))
                                            || (x == q.start && on_segment(c, a, b)) || (x == q.end && on_segment(d, a, b)))
                    }
                })
        }),
//@entry
    proof {
        F::ax_obeys(); F::ax_order();
        let (a, b, c, d) = (pt(p.start), pt(p.end), pt(q.start), pt(q.end));
        lemma_ends_on_segment(a, b); lemma_ends_on_segment(c, d);
        lemma_rejections_sound(a, b, c, d);
        if !same_strict_side(cross(a, b, c), cross(a, b, d)) && !same_strict_side(cross(c, d, a), cross(c, d, b))
            && !(cross(a, b, c) == 0 && cross(a, b, d) == 0 && cross(c, d, a) == 0 && cross(c, d, b) == 0) {
            lemma_touching(a, b, c, d);
        }
    }
//@end

// ------------------------------------------------------------------ nearest_endpoint (fallback of proper_intersection)
pub uninterp spec fn m_pld<F: GeoFloat>(p: Coord<F>, l: Line<F>) -> int;
pub mod geo_types { pub mod private_utils {
    use super::super::*;
    /// ASSUMED: the point-to-segment distance is a function of its arguments (nothing else is assumed about it)
    #[verifier::external_body]
    pub fn point_line_euclidean_distance<F: GeoFloat>(p: Coord<F>, l: Line<F>) -> (r: F) ensures r.val() == m_pld(p, l) { unimplemented!() }
} }
//@fn geo/src/algorithm/line_intersection.rs | - | nearest_endpoint | id=C11.V.nearest_endpoint
//@ret r
//@spec
    ensures
        ({
            let (d1, d2, d3, d4) = (m_pld(p.start, q), m_pld(p.end, q), m_pld(q.start, p), m_pld(q.end, p));
            // the FIRST of (p.start, p.end, q.start, q.end) whose distance to the other segment is the minimum of the four
            &&& (d1 <= d2 && d1 <= d3 && d1 <= d4 ==> r == p.start)
            &&& (d2 < d1 && d2 <= d3 && d2 <= d4 ==> r == p.end)
            &&& (d3 < d1 && d3 < d2 && d3 <= d4 ==> r == q.start)
            &&& (d4 < d1 && d4 < d2 && d4 < d3 ==> r == q.end)
        }),
//@entry
    proof { F::ax_obeys(); F::ax_order(); }
//@end

} // verus!
fn main() {}
