// frag_partial_ord.rs -- contracts of helpers that are generic over `T: PartialOrd` (no scalar axioms available).
// ASSUMPTION (a precondition of those helpers, discharged for CoordNum scalars by lemma_po_dual): the duality law
// that the documentation of core::cmp::PartialOrd demands of every implementation -- `a < b` iff `b > a`, i.e.
// b.partial_cmp(a) is the reverse of a.partial_cmp(b).  With it, `a > b` and `b < a` in a body are the same test.
verus! {
pub open spec fn pc_le<T: PartialOrd>(a: T, b: T) -> bool {
    a.partial_cmp_spec(&b) == Some(Ordering::Less) || a.partial_cmp_spec(&b) == Some(Ordering::Equal)
}
pub open spec fn pc_ge<T: PartialOrd>(a: T, b: T) -> bool {
    a.partial_cmp_spec(&b) == Some(Ordering::Greater) || a.partial_cmp_spec(&b) == Some(Ordering::Equal)
}
pub open spec fn pc_lt<T: PartialOrd>(a: T, b: T) -> bool { a.partial_cmp_spec(&b) == Some(Ordering::Less) }
pub open spec fn pc_gt<T: PartialOrd>(a: T, b: T) -> bool { a.partial_cmp_spec(&b) == Some(Ordering::Greater) }
pub open spec fn ord_rev(o: Option<Ordering>) -> Option<Ordering> {
    match o {
        Some(Ordering::Less) => Some(Ordering::Greater),
        Some(Ordering::Greater) => Some(Ordering::Less),
        Some(Ordering::Equal) => Some(Ordering::Equal),
        None => None,
    }
}
pub open spec fn po_dual<T: PartialOrd>() -> bool {
    forall|a: T, b: T| #![trigger a.partial_cmp_spec(&b)] b.partial_cmp_spec(&a) == ord_rev(a.partial_cmp_spec(&b))
}
pub proof fn lemma_po_dual<T: CoordNum>() ensures po_dual::<T>() {
    assert forall|a: T, b: T| #![trigger a.partial_cmp_spec(&b)] b.partial_cmp_spec(&a) == ord_rev(a.partial_cmp_spec(&b)) by {
        T::ax_cmp(a, b); T::ax_cmp(b, a);
    }
}
} // verus!
