// Unit c12_closest: the closest_point kernels (property C12: "closest_point(g,p) is Intersection(p) exactly when p
// intersects g, otherwise a point of g ..., Indeterminate only for empty or zero-length input").
//   * Closest::best_of_two  -- the fold step of every multi-part closest_point
//   * Point / Coord         -- Intersection exactly when equal, and the point itself
//   * Line                  -- Indeterminate exactly for a zero-length line; Intersection only when the line meets p;
//                              the returned point is start + t (end - start) with 0 <= t <= 1: a point OF the segment
//   * Rect / Triangle       -- Intersection(p) exactly on the `intersects` branch, otherwise the fold over the edges
// ASSUMED contracts (abstract collaborators): Euclidean point-point distance and line length, Line/Rect/Triangle
// `intersects` Point (proved in unit c02_intersects), `closest_of` (the generic fold: proved in unit c12_closest_of), the scalar
// division (uninterpreted result).  The scalar is the exact ring of prelude_exact.
//@include prelude_exact.rs
verus! {

pub trait GeoFloat: CoordFloat {}

//@type geo-types/src/geometry/coord.rs | Coord
//@type geo-types/src/geometry/point.rs | Point
//@type geo-types/src/geometry/line.rs | Line
//@type geo-types/src/geometry/rect.rs | Rect
//@type geo-types/src/geometry/triangle.rs | Triangle
//@type geo/src/algorithm/line_measures/metric_spaces/euclidean/mod.rs | Euclidean
//@type geo/src/types.rs | Closest

// derived PartialEq of Coord / Point: field by field (what the derive generates)
impl<T: CoordNum> vstd::std_specs::cmp::PartialEqSpecImpl for Coord<T> {
    open spec fn obeys_eq_spec() -> bool { T::obeys_eq_spec() }
    open spec fn eq_spec(&self, other: &Self) -> bool { self.x.eq_spec(&other.x) && self.y.eq_spec(&other.y) }
}
impl<T: CoordNum> vstd::std_specs::cmp::PartialEqSpecImpl for Point<T> {
    open spec fn obeys_eq_spec() -> bool { T::obeys_eq_spec() }
    open spec fn eq_spec(&self, other: &Self) -> bool { self.0.x.eq_spec(&other.0.x) && self.0.y.eq_spec(&other.0.y) }
}
pub open spec fn ceq<T: CoordNum>(a: Coord<T>, b: Coord<T>) -> bool { a.x.val() == b.x.val() && a.y.val() == b.y.val() }

// ------------------------------------------------------------------ abstract collaborators
pub uninterp spec fn pdist<F: CoordNum>(a: Point<F>, b: Point<F>) -> int;
pub uninterp spec fn line_len<F: CoordNum>(l: Line<F>) -> int;
pub uninterp spec fn line_meets<F: CoordNum>(l: Line<F>, p: Point<F>) -> bool;
pub uninterp spec fn rect_meets<F: CoordNum>(r: Rect<F>, p: Point<F>) -> bool;
pub uninterp spec fn tri_meets<F: CoordNum>(t: Triangle<F>, p: Point<F>) -> bool;

pub trait Distance<F, Origin, Destination> { fn distance(&self, origin: Origin, destination: Destination) -> F; }
impl<F: GeoFloat> Distance<F, Point<F>, Point<F>> for Euclidean {
    #[verifier::external_body]
    fn distance(&self, origin: Point<F>, destination: Point<F>) -> (r: F) ensures r.val() == pdist(origin, destination) { unimplemented!() }
}
pub trait Length<F: CoordNum> { fn length(&self, geometry: &Line<F>) -> F; }
impl<F: GeoFloat> Length<F> for Euclidean {
    #[verifier::external_body]
    fn length(&self, geometry: &Line<F>) -> (r: F)
        ensures r.val() == line_len(*geometry), (line_len(*geometry) == 0) == ceq(geometry.start, geometry.end)
    { unimplemented!() }
}
pub trait Intersects<Rhs = Self> { fn intersects(&self, rhs: &Rhs) -> bool; }
impl<F: GeoFloat> Intersects<Point<F>> for Line<F> {
    #[verifier::external_body]
    fn intersects(&self, rhs: &Point<F>) -> (r: bool) ensures r == line_meets(*self, *rhs) { unimplemented!() }
}
impl<F: GeoFloat> Intersects<Point<F>> for Rect<F> {
    #[verifier::external_body]
    fn intersects(&self, rhs: &Point<F>) -> (r: bool) ensures r == rect_meets(*self, *rhs) { unimplemented!() }
}
impl<F: GeoFloat> Intersects<Point<F>> for Triangle<F> {
    #[verifier::external_body]
    fn intersects(&self, rhs: &Point<F>) -> (r: bool) ensures r == tri_meets(*self, *rhs) { unimplemented!() }
}

// ------------------------------------------------------------------ Closest::best_of_two
pub open spec fn closest_point_of<F: GeoFloat>(c: Closest<F>) -> Point<F> {
    match c { Closest::Intersection(q) => q, Closest::SinglePoint(q) => q, Closest::Indeterminate => arbitrary() }
}
impl<F: GeoFloat> Closest<F> {
//@fn geo/src/types.rs | impl<F: GeoFloat> Closest<F> | best_of_two | id=C12.V.best_of_two
//@ret r
//@spec
        ensures
            // one of the two candidates
            r == *self || r == *other,
            // an intersection wins (nothing is closer); Indeterminate only when both are
            (*self is Intersection || *other is Intersection) ==> r is Intersection,
            (r is Indeterminate) == (*self is Indeterminate && *other is Indeterminate),
            // between two single points: the one that is not farther from p
            (*self is SinglePoint && *other is SinglePoint) ==>
                pdist(closest_point_of(r), p) <= pdist(closest_point_of(*self), p) && pdist(closest_point_of(r), p) <= pdist(closest_point_of(*other), p),
//@entry
        proof { F::ax_obeys(); F::ax_order(); }
//@end
}

// ------------------------------------------------------------------ Point / Coord
impl<T: CoordNum> From<Coord<T>> for Point<T> {
//@fn geo-types/src/geometry/point.rs | impl<T: CoordNum> From<Coord<T>> for Point<T> | from | id=C12.V.point_from_coord
//@ret r
//@spec
    ensures r.0 == x,
//@end
}
impl<T: CoordNum> vstd::std_specs::convert::FromSpecImpl<Coord<T>> for Point<T> {
    open spec fn obeys_from_spec() -> bool { false }
    uninterp spec fn from_spec(v: Coord<T>) -> Self;
}

pub trait ClosestPoint<F: GeoFloat, Rhs = Point<F>> {
    spec fn cp_post(&self, p: &Rhs, r: Closest<F>) -> bool;
    fn closest_point(&self, p: &Rhs) -> (r: Closest<F>) ensures self.cp_post(p, r);
}
impl<F: GeoFloat> ClosestPoint<F> for Point<F> {
    open spec fn cp_post(&self, p: &Self, r: Closest<F>) -> bool {
        // Intersection exactly when the points coincide; the point returned is the point itself
        r == (if ceq(self.0, p.0) { Closest::Intersection(*self) } else { Closest::SinglePoint(*self) })
    }
//@fn geo/src/algorithm/closest_point.rs | impl<F: GeoFloat> ClosestPoint<F> for Point<F> | closest_point | id=C12.V.point_closest_point
//@entry
        proof { F::ax_obeys(); F::ax_order(); }
//@end
}
impl<F: GeoFloat> ClosestPoint<F> for Coord<F> {
    open spec fn cp_post(&self, p: &Point<F>, r: Closest<F>) -> bool {
        r == (if ceq(*self, p.0) { Closest::Intersection(Point(*self)) } else { Closest::SinglePoint(Point(*self)) })
    }
//@fn geo/src/algorithm/closest_point.rs | impl<F: GeoFloat> ClosestPoint<F> for Coord<F> | closest_point | id=C12.V.coord_closest_point
//@end
}

// ------------------------------------------------------------------ Line
pub trait GeoFloatD: GeoFloat {}

impl<T: CoordNum> vstd::std_specs::ops::SubSpecImpl for Coord<T> {
    open spec fn obeys_sub_spec() -> bool { false }
    open spec fn sub_req(self, rhs: Self) -> bool { true }
    uninterp spec fn sub_spec(self, rhs: Self) -> Self;
}
impl<T: CoordNum> core::ops::Sub for Coord<T> {
    type Output = Self;
//@fn geo-types/src/geometry/coord.rs | impl<T: CoordNum> Sub for Coord<T> | sub | id=C12.V.coord_sub
//@ret r
//@spec
        ensures r.x.val() == self.x.val() - rhs.x.val(), r.y.val() == self.y.val() - rhs.y.val(),
//@entry
        proof { T::ax_obeys(); T::ax_ring(); }
//@end
}
impl<T: CoordNum> vstd::std_specs::ops::AddSpecImpl for Coord<T> {
    open spec fn obeys_add_spec() -> bool { false }
    open spec fn add_req(self, rhs: Self) -> bool { true }
    uninterp spec fn add_spec(self, rhs: Self) -> Self;
}
impl<T: CoordNum> core::ops::Add for Coord<T> {
    type Output = Self;
//@fn geo-types/src/geometry/coord.rs | impl<T: CoordNum> Add for Coord<T> | add | id=C12.V.coord_add
//@ret r
//@spec
        ensures r.x.val() == self.x.val() + rhs.x.val(), r.y.val() == self.y.val() + rhs.y.val(),
//@entry
        proof { T::ax_obeys(); T::ax_ring(); }
//@end
}
impl<T: CoordNum> vstd::std_specs::convert::FromSpecImpl<(T, T)> for Coord<T> {
    open spec fn obeys_from_spec() -> bool { false }
    uninterp spec fn from_spec(v: (T, T)) -> Self;
}
impl<T: CoordNum> From<(T, T)> for Coord<T> {
//@fn geo-types/src/geometry/coord.rs | impl<T: CoordNum> From<(T, T)> for Coord<T> | from | id=C18.V.coord_from_tuple | props=C18
//@ret r
//@spec
    ensures r.x == coords.0, r.y == coords.1,
//@end
}
impl<T: CoordNum> Point<T> {
//@fn geo-types/src/geometry/point.rs | impl<T: CoordNum> Point<T> | x | id=C12.V.point_x
//@ret r
//@spec
    ensures r == self.0.x,
//@end
//@fn geo-types/src/geometry/point.rs | impl<T: CoordNum> Point<T> | y | id=C12.V.point_y
//@ret r
//@spec
    ensures r == self.0.y,
//@end
//@fn geo-types/src/geometry/point.rs | impl<T: CoordNum> Point<T> | dot | id=C12.V.point_dot
//@ret r
//@spec
    ensures r.val() == self.0.x.val() * other.0.x.val() + self.0.y.val() * other.0.y.val(),
//@entry
        proof { T::ax_obeys(); T::ax_ring(); }
//@end
}

/// q = start + t (end - start) for a parameter 0 <= t <= 1: a point of the segment
pub open spec fn on_param<F: CoordNum>(l: Line<F>, q: Point<F>) -> bool {
    exists|t: F| 0 <= t.val() <= 1
        && #[trigger] at_param(l, t.val()) == (q.0.x.val(), q.0.y.val())
}
/// (p - start) . (end - start) and |end - start|^2: the projection parameter is their quotient
pub open spec fn proj_num<F: CoordNum>(l: Line<F>, p: Point<F>) -> int {
    (p.0.x.val() - l.start.x.val()) * (l.end.x.val() - l.start.x.val()) + (p.0.y.val() - l.start.y.val()) * (l.end.y.val() - l.start.y.val())
}
pub open spec fn proj_den<F: CoordNum>(l: Line<F>) -> int {
    (l.end.x.val() - l.start.x.val()) * (l.end.x.val() - l.start.x.val()) + (l.end.y.val() - l.start.y.val()) * (l.end.y.val() - l.start.y.val())
}
pub open spec fn at_param<F: CoordNum>(l: Line<F>, t: int) -> (int, int) {
    (l.start.x.val() + t * (l.end.x.val() - l.start.x.val()), l.start.y.val() + t * (l.end.y.val() - l.start.y.val()))
}
impl<F: GeoFloatD> ClosestPoint<F> for Line<F> {
    open spec fn cp_post(&self, p: &Point<F>, r: Closest<F>) -> bool {
        let num = proj_num(*self, *p);
        let den = proj_den(*self);
        // Indeterminate exactly for a zero-length line
        &&& (r is Indeterminate) == (line_len(*self) == 0)
        // Intersection only when the line really meets p
        &&& (r is Intersection ==> line_meets(*self, *p))
        // projection with clamping: before the start -> the start, past the end -> the end,
        &&& (line_len(*self) != 0 && num < 0 ==> r == Closest::SinglePoint(Point(self.start)))
        &&& (line_len(*self) != 0 && num > den ==> r == Closest::SinglePoint(Point(self.end)))
        // otherwise start + t (end - start) with 0 <= t <= 1: a point ON the segment
        &&& (line_len(*self) != 0 && 0 <= num <= den ==> on_param(*self, closest_point_of(r)))
    }
//@fn geo/src/algorithm/closest_point.rs | impl<F: GeoFloat> ClosestPoint<F> for Line<F> | closest_point | id=C12.V.line_closest_point
//@entry
        proof {
            F::ax_obeys(); F::ax_order(); F::ax_ring(); F::ax_div();
            // a sum of two squares is positive unless both are zero
            assert forall|a: int| #[trigger] (a * a) >= 0 && (a * a == 0 ==> a == 0) by { assert(a * a >= 0 && (a * a == 0 ==> a == 0)) by (nonlinear_arith); }
        }
//@before 1 `if self.intersects(p) {`
        proof { assert(at_param(*self, t.val()) == (c.0.x.val(), c.0.y.val())); }
//@end
}

// ------------------------------------------------------------------ Rect / Triangle
/// the generic fold over the parts (`closest_of`: a `for` loop over an arbitrary IntoIterator; abstract HERE, proved at a
/// Vec instantiation in unit c12_closest_of; K harness c12_k_linestring_with_repeated_last_vertex runs it on LineStrings)
pub uninterp spec fn m_closest_of<I, F: GeoFloat>(iter: I, p: Point<F>) -> Closest<F>;
#[verifier::external_body]
fn closest_of<C, F, I>(iter: I, p: Point<F>) -> (r: Closest<F>)
where
    F: GeoFloatD,
    I: IntoIterator<Item = C>,
    C: ClosestPoint<F>,
    ensures r == m_closest_of(iter, p)
{ unimplemented!() }
pub uninterp spec fn rect_lines<F: CoordNum>(r: Rect<F>) -> [Line<F>; 4];
pub uninterp spec fn tri_lines<F: CoordNum>(t: Triangle<F>) -> [Line<F>; 3];
impl<T: CoordNum> Rect<T> {
    /// twin of Rect::to_lines (proved in unit c18_geo_types)
    #[verifier::external_body]
    pub fn to_lines(&self) -> (r: [Line<T>; 4]) ensures r == rect_lines(*self) { unimplemented!() }
}
impl<T: CoordNum> Triangle<T> {
    /// twin of Triangle::to_lines (proved in unit c18_geo_types)
    #[verifier::external_body]
    pub fn to_lines(&self) -> (r: [Line<T>; 3]) ensures r == tri_lines(*self) { unimplemented!() }
}
impl<F: GeoFloatD> ClosestPoint<F> for Rect<F> {
    open spec fn cp_post(&self, p: &Point<F>, r: Closest<F>) -> bool {
        // Intersection(p) when p intersects the rectangle; otherwise whatever the fold over the four edges answers
        &&& (rect_meets(*self, *p) ==> r == Closest::Intersection(*p))
        &&& (!rect_meets(*self, *p) ==> r == m_closest_of(rect_lines(*self), *p))
    }
//@fn geo/src/algorithm/closest_point.rs | impl<F: GeoFloat> ClosestPoint<F> for Rect<F> | closest_point | id=C12.V.rect_closest_point
//@end
}
impl<F: GeoFloatD> ClosestPoint<F> for Triangle<F> {
    open spec fn cp_post(&self, p: &Point<F>, r: Closest<F>) -> bool {
        &&& (tri_meets(*self, *p) ==> r == Closest::Intersection(*p))
        &&& (!tri_meets(*self, *p) ==> r == m_closest_of(tri_lines(*self), *p))
    }
//@fn geo/src/algorithm/closest_point.rs | impl<F: GeoFloat> ClosestPoint<F> for Triangle<F> | closest_point | id=C12.V.triangle_closest_point
//@end
}

} // verus!
fn main() {}
