// Unit c02_multi: the Multi* layer of Intersects / Contains (property C02: "... agree with DE-9IM" for Multi* types:
// a Multi* intersects a geometry exactly when one of its members does) for ANY number of members and any right-hand
// geometry type G.  Bodies are `self.iter().any(closure)` behind the cheap `has_disjoint_bboxes` rejection.
// ASSUMED: std contract of `Iterator::any` for slice::Iter; `Multi*::iter()` twins returning the slice iterator of the
// member Vec (the real bodies are `self.0.iter()` behind an opaque `impl Iterator`); the members' own `intersects` /
// `contains` (abstract, proved per type elsewhere); bounding_rect of both sides abstract.  NOT proved here: that
// disjoint bounding boxes imply that no member intersects (soundness of the rejection needs bounding_rect = the box of
// all coordinates, C19).  The closures get their types and contracts in place (X10).
//@include prelude_scalar.rs
//@include prelude_std.rs
//@include prelude_types.rs
//@include frag_rect_access.rs
verus! {
//@type geo-types/src/geometry/point.rs | Point
//@type geo-types/src/geometry/multi_point.rs | MultiPoint
//@type geo-types/src/geometry/multi_line_string.rs | MultiLineString
//@type geo-types/src/geometry/multi_polygon.rs | MultiPolygon
impl<T: CoordNum> vstd::std_specs::cmp::PartialEqSpecImpl for Point<T> {
    open spec fn obeys_eq_spec() -> bool { T::obeys_eq_spec() }
    open spec fn eq_spec(&self, other: &Self) -> bool { self.0.x.eq_spec(&other.0.x) && self.0.y.eq_spec(&other.0.y) }
}
/// twin of the iterator the `Multi*::iter()` methods return (`self.0.iter()` behind an opaque `impl Iterator`), with the
/// std contract of `Iterator::any` (ASSUMED): true exactly when the predicate answered true for some member -- the
/// predicate is a relation here: `true` needs a member that answered true, `false` needs every member to have answered false
#[verifier::external_body] #[verifier::reject_recursive_types(M)]
pub struct MemberIter<'a, M> { it: core::slice::Iter<'a, M> }
impl<'a, M> MemberIter<'a, M> {
    pub uninterp spec fn members(&self) -> Seq<M>;
    #[verifier::external_body]
    pub fn any<F: FnMut(&'a M) -> bool>(&mut self, f: F) -> (r: bool)
        requires forall|t: &'a M| call_requires(f, (t,)),
        ensures
            r ==> exists|i: int| 0 <= i < old(self).members().len() && call_ensures(f, (&#[trigger] old(self).members()[i],), true),
            !r ==> forall|i: int| 0 <= i < old(self).members().len() ==> call_ensures(f, (&#[trigger] old(self).members()[i],), false),
    { unimplemented!() }
}
impl<T: CoordNum> MultiPoint<T> {
    #[verifier::external_body]
    pub fn iter(&self) -> (r: MemberIter<'_, Point<T>>) ensures r.members() == self.0@ { unimplemented!() }
}
impl<T: CoordNum> MultiLineString<T> {
    #[verifier::external_body]
    pub fn iter(&self) -> (r: MemberIter<'_, LineString<T>>) ensures r.members() == self.0@ { unimplemented!() }
}
impl<T: CoordNum> MultiPolygon<T> {
    #[verifier::external_body]
    pub fn iter(&self) -> (r: MemberIter<'_, Polygon<T>>) ensures r.members() == self.0@ { unimplemented!() }
}

// ------------------------------------------------------------------ the bbox rejection
pub trait BoundingRect<T: CoordNum> {
    type Output: Into<Option<Rect<T>>>;
    spec fn brect(&self) -> Self::Output;
    /// the box as an Option (ASSUMED: the `Into<Option<Rect>>` conversion of the Output is a function -- it is the identity
    /// or `Some` for every Output type of the crate)
    spec fn brect_opt(&self) -> Option<Rect<T>>;
    proof fn ax_into(&self)
        ensures
            forall|x: Self::Output| call_requires(Self::Output::into, (x,)),
            forall|o: Option<Rect<T>>| call_ensures(Self::Output::into, (self.brect(),), o) ==> o == self.brect_opt();
    fn bounding_rect(&self) -> (r: Self::Output) ensures r == self.brect();
}
pub open spec fn rects_meet<T: CoordNum>(a: Rect<T>, b: Rect<T>) -> bool {
    !(rmax(a).x.val() < rmin(b).x.val() || rmax(a).y.val() < rmin(b).y.val() || rmin(a).x.val() > rmax(b).x.val() || rmin(a).y.val() > rmax(b).y.val())
}
/// both sides have a box and the boxes are disjoint
pub open spec fn boxes_reject<T: CoordNum, A: BoundingRect<T>, B: BoundingRect<T>>(a: &A, b: &B) -> bool {
    a.brect_opt() is Some && b.brect_opt() is Some && !rects_meet(a.brect_opt()->Some_0, b.brect_opt()->Some_0)
}
pub trait Intersects<Rhs = Self> { spec fn meets(&self, rhs: &Rhs) -> bool; fn intersects(&self, rhs: &Rhs) -> (r: bool) ensures r == self.meets(rhs); }
impl<T: CoordNum> Intersects<Rect<T>> for Rect<T> {
    open spec fn meets(&self, other: &Rect<T>) -> bool { rects_meet(*self, *other) }
    #[verifier::external_body]
    fn intersects(&self, other: &Rect<T>) -> (r: bool) { unimplemented!() }
}
//@fn geo/src/algorithm/intersects/mod.rs | - | has_disjoint_bboxes | id=C02.V.has_disjoint_bboxes
//@ret r
//@spec
    ensures r == boxes_reject(a, b),
//@entry
    proof { a.ax_into(); b.ax_into(); }
//@end

// ------------------------------------------------------------------ Multi* x G
pub trait GeoNum: CoordNum {}
impl<T: CoordNum> BoundingRect<T> for MultiPolygon<T> {
    type Output = Option<Rect<T>>;
    uninterp spec fn brect(&self) -> Option<Rect<T>>;
    open spec fn brect_opt(&self) -> Option<Rect<T>> { self.brect() }
    #[verifier::external_body] proof fn ax_into(&self) {}
    #[verifier::external_body] fn bounding_rect(&self) -> (r: Option<Rect<T>>) { unimplemented!() }
}
impl<T: CoordNum> BoundingRect<T> for MultiLineString<T> {
    type Output = Option<Rect<T>>;
    uninterp spec fn brect(&self) -> Option<Rect<T>>;
    open spec fn brect_opt(&self) -> Option<Rect<T>> { self.brect() }
    #[verifier::external_body] proof fn ax_into(&self) {}
    #[verifier::external_body] fn bounding_rect(&self) -> (r: Option<Rect<T>>) { unimplemented!() }
}
/// some member meets rhs
pub open spec fn some_member_meets<M: Intersects<G>, G>(m: Seq<M>, rhs: &G) -> bool { exists|i: int| 0 <= i < m.len() && (#[trigger] m[i]).meets(rhs) }

impl<G, T> Intersects<G> for MultiPolygon<T>
where
    T: GeoNum,
    Polygon<T>: Intersects<G>,
    G: BoundingRect<T>,
{
    /// (after the cheap bounding-box rejection) exactly when some member polygon intersects rhs
    open spec fn meets(&self, rhs: &G) -> bool { !boxes_reject(self, rhs) && some_member_meets(self.0@, rhs) }
//@fn geo/src/algorithm/intersects/polygon.rs | impl<G, T> Intersects<G> for MultiPolygon<T> where T: GeoNum, Polygon<T>: Intersects<G>, G: BoundingRect<T>, | intersects | id=C02.V.multipolygon_intersects
//@closure 1 `|p|` | p: &Polygon<T> | o: bool
            ensures o == p.meets(rhs)
//@end
}
impl<T, G> Intersects<G> for MultiLineString<T>
where
    T: CoordNum,
    LineString<T>: Intersects<G>,
    G: BoundingRect<T>,
{
    open spec fn meets(&self, rhs: &G) -> bool { !boxes_reject(self, rhs) && some_member_meets(self.0@, rhs) }
//@fn geo/src/algorithm/intersects/line_string.rs | impl<T, G> Intersects<G> for MultiLineString<T> where T: CoordNum, LineString<T>: Intersects<G>, G: BoundingRect<T>, | intersects | id=C02.V.multilinestring_intersects
//@closure 1 `|p|` | p: &LineString<T> | o: bool
            ensures o == p.meets(rhs)
//@end
}
impl<T, G> Intersects<G> for MultiPoint<T>
where
    T: CoordNum,
    Point<T>: Intersects<G>,
{
    /// exactly when some member point intersects rhs (no rejection step)
    open spec fn meets(&self, rhs: &G) -> bool { some_member_meets(self.0@, rhs) }
//@fn geo/src/algorithm/intersects/point.rs | impl<T, G> Intersects<G> for MultiPoint<T> where T: CoordNum, Point<T>: Intersects<G>, | intersects | id=C02.V.multipoint_intersects
//@closure 1 `|p|` | p: &Point<T> | o: bool
            ensures o == p.meets(rhs)
//@end
}

} // verus!
fn main() {}
