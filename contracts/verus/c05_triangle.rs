// Unit c05_triangle: the two remaining area kernels that END IN A DIVISION (property C05: "Rect and Triangle areas equal
// those of their polygon form"; ring area = half the shoelace sum):
//   * `Area for Triangle`: signed_area = (shoelace sum of the three sides v0->v1, v1->v2, v2->v0) / 2, unsigned_area = its
//     absolute value; its sign is the sign of the shoelace sum (positive exactly for counter-clockwise vertices);
//   * `get_linestring_area` = twice_signed_ring_area / 2 (the shoelace sum itself is proved in unit c05_ring).
//   * lemmas: the ring of Triangle::to_polygon / Rect::to_polygon has, as its textbook shoelace sum, exactly the sum the
//     Triangle formula halves / twice the width x height that `Area for Rect` returns (areas equal those of the polygon form).
// The scalar is the exact ring of prelude_exact (val: int), in which a quotient has no exact value: the postconditions
// therefore name the quotient as `s / d` of a scalar s carrying the exact shoelace sum and a scalar d of value 2, and use
// only the ASSUMED sign law of a division by a positive scalar (ax_div).
//@include prelude_exact.rs
use vstd::std_specs::iter::IteratorSpec;
verus! {
//@type geo-types/src/geometry/coord.rs | Coord
//@type geo-types/src/geometry/line.rs | Line
//@type geo-types/src/geometry/line_string.rs | LineString
//@type geo-types/src/geometry/triangle.rs | Triangle

impl<T: CoordNum> Line<T> {
//@fn geo-types/src/geometry/line.rs | impl<T: CoordNum> Line<T> | determinant | id=C05.V.line_determinant
//@ret r
//@spec
    ensures r.val() == self.start.x.val() * self.end.y.val() - self.start.y.val() * self.end.x.val(),
//@entry
        proof { T::ax_obeys(); T::ax_ring(); }
//@end
}
impl<T: CoordNum> Triangle<T> {
    /// twin of Triangle::to_lines (contract PROVED on the real body in unit c18_geo_types, id C18.V.tri_to_lines; assumed here)
    #[verifier::external_body]
    pub fn to_lines(&self) -> (r: [Line<T>; 3])
        ensures r@.len() == 3,
            r@[0] == (Line { start: self.0, end: self.1 }), r@[1] == (Line { start: self.1, end: self.2 }), r@[2] == (Line { start: self.2, end: self.0 }),
    { unimplemented!() }
}

/// std: `Iterator::fold` threads the accumulator through the closure, element by element (ASSUMED)
pub open spec fn chain_ok<'a, T, B, F: FnMut(B, &'a T) -> B>(f: F, s: Seq<&'a T>, accs: Seq<B>) -> bool {
    accs.len() == s.len() + 1 && forall|i: int| 0 <= i < s.len() ==> call_ensures(f, (#[trigger] accs[i], s[i]), accs[i + 1])
}
pub open spec fn fold_chain<'a, T, B, F: FnMut(B, &'a T) -> B>(f: F, s: Seq<&'a T>, init: B, r: B) -> bool {
    exists|accs: Seq<B>| #[trigger] chain_ok(f, s, accs) && accs[0] == init && accs[s.len() as int] == r
}
pub assume_specification<'a, T, B, F: FnMut(B, &'a T) -> B>[ <core::slice::Iter<'a, T> as Iterator>::fold::<B, F> ](it: core::slice::Iter<'a, T>, init: B, f: F) -> (r: B)
    requires forall|b: B, t: &'a T| call_requires(f, (b, t)),
    ensures fold_chain(f, it.remaining(), init, r),
;

pub open spec fn det<T: CoordNum>(a: Coord<T>, b: Coord<T>) -> int { a.x.val() * b.y.val() - a.y.val() * b.x.val() }
/// THE FORMULA: twice the signed area of the triangle = shoelace sum over its three directed sides
pub open spec fn tri_twice<T: CoordNum>(t: Triangle<T>) -> int { det(t.0, t.1) + det(t.1, t.2) + det(t.2, t.0) }
pub open spec fn iabs(a: int) -> int { if a >= 0 { a } else { -a } }
/// r has the value of the quotient (by a scalar of value 2) of a scalar carrying the exact value `twice`
pub open spec fn is_half_of<T: CoordFloat>(r: T, twice: int) -> bool {
    exists|s: T, d: T| s.val() == twice && d.val() == 2 && r.val() == (#[trigger] s.div_spec(d)).val()
}

pub trait Area<T> where T: CoordNum { fn signed_area(&self) -> T; fn unsigned_area(&self) -> T; }
impl<T> Area<T> for Triangle<T>
where
    T: CoordFloat,
{
//@fn geo/src/algorithm/area.rs | impl<T> Area<T> for Triangle<T> where T: CoordFloat, | signed_area | id=C05.V.triangle_signed_area
//@ret r
//@spec
        ensures
            is_half_of(r, tri_twice(*self)),
            // positive exactly when the vertices are counter-clockwise, zero exactly when they are collinear
            (r.val() > 0) == (tri_twice(*self) > 0), (r.val() < 0) == (tri_twice(*self) < 0),
//@closure ? `|total, line|` | total: T, line: &Line<T> | o: T
            ensures o.val() == total.val() + det(line.start, line.end)
//@entry
        proof { T::ax_obeys(); T::ax_order(); T::ax_ring(); T::ax_div(); }
//@end
//@fn geo/src/algorithm/area.rs | impl<T> Area<T> for Triangle<T> where T: CoordFloat, | unsigned_area | id=C05.V.triangle_unsigned_area
//@ret r
//@spec
        ensures
            exists|h: T| is_half_of(h, tri_twice(*self)) && #[trigger] h.val() == h.val() && r.val() == iabs(h.val()),
            (r.val() > 0) == (tri_twice(*self) != 0), r.val() >= 0,
//@closure ? `|total, line|` | total: T, line: &Line<T> | o: T
            ensures o.val() == total.val() + det(line.start, line.end)
//@entry
        proof { T::ax_obeys(); T::ax_order(); T::ax_ring(); T::ax_div(); }
//@end
}

/// twice the signed ring area (ASSUMED here: proved = the textbook shoelace sum in unit c05_ring)
pub uninterp spec fn ring_twice<T: CoordNum>(ls: LineString<T>) -> int;
#[verifier::external_body]
pub fn twice_signed_ring_area<T: CoordNum>(linestring: &LineString<T>) -> (r: T) ensures r.val() == ring_twice(*linestring) { unimplemented!() }

//@fn geo/src/algorithm/area.rs | | get_linestring_area | id=C05.V.get_linestring_area
//@ret r
//@spec
    ensures
        is_half_of(r, ring_twice(*linestring)),
        (r.val() > 0) == (ring_twice(*linestring) > 0), (r.val() < 0) == (ring_twice(*linestring) < 0),
//@entry
    proof { T::ax_obeys(); T::ax_ring(); T::ax_div(); }
//@end

// ------------------------------------------------------------------ "Rect and Triangle areas equal those of their polygon form"
// (lemmas over the contracts: the ring of `to_polygon` - [v0, v1, v2, v0] resp. the five corners starting at (max.x, min.y);
// those conversions are decided by the K-complete harnesses of C18 - has, as its textbook shoelace sum (the sum that unit
// c05_ring proves `twice_signed_ring_area` computes), exactly the value the direct formulas above halve)
pub open spec fn det2(ax: int, ay: int, bx: int, by: int) -> int { ax * by - ay * bx }
/// (same definition as in unit c05_ring)
pub open spec fn shoelace2<T: CoordNum>(s: Seq<Coord<T>>, k: int) -> int
    decreases k
{
    if k <= 0 { 0 } else { shoelace2(s, k - 1) + det2(s[k - 1].x.val(), s[k - 1].y.val(), s[k].x.val(), s[k].y.val()) }
}
pub proof fn lemma_triangle_polygon_form<T: CoordNum>(t: Triangle<T>)
    ensures shoelace2(seq![t.0, t.1, t.2, t.0], 3) == tri_twice(t),
{
    let s = seq![t.0, t.1, t.2, t.0];
    reveal_with_fuel(shoelace2, 4);
    assert(s[0] == t.0 && s[1] == t.1 && s[2] == t.2 && s[3] == t.0);
}
pub proof fn lemma_rect_polygon_form<T: CoordNum>(lo: Coord<T>, hi: Coord<T>)
    ensures
        // twice (width x height): the value `Area for Rect` (unit c05_exact) returns, doubled - counter-clockwise ring
        shoelace2(seq![Coord { x: hi.x, y: lo.y }, hi, Coord { x: lo.x, y: hi.y }, lo, Coord { x: hi.x, y: lo.y }], 4)
            == 2 * ((hi.x.val() - lo.x.val()) * (hi.y.val() - lo.y.val())),
{
    let s = seq![Coord { x: hi.x, y: lo.y }, hi, Coord { x: lo.x, y: hi.y }, lo, Coord { x: hi.x, y: lo.y }];
    reveal_with_fuel(shoelace2, 5);
    assert(s[0] == Coord { x: hi.x, y: lo.y } && s[1] == hi && s[2] == Coord { x: lo.x, y: hi.y } && s[3] == lo && s[4] == Coord { x: hi.x, y: lo.y });
    let (a, b, c, d) = (lo.x.val(), lo.y.val(), hi.x.val(), hi.y.val());
    assert(shoelace2(s, 4) == det2(c, b, c, d) + det2(c, d, a, d) + det2(a, d, a, b) + det2(a, b, c, b));
    assert(det2(c, b, c, d) + det2(c, d, a, d) + det2(a, d, a, b) + det2(a, b, c, b) == 2 * ((c - a) * (d - b))) by(nonlinear_arith);
}

} // verus!
fn main() {}
