// ======================================================================================
// prelude_std.rs -- assumed specifications of std functions that vstd does not cover.
// Each one is an ASSUMPTION listed in the evidence (trusted base).
// ======================================================================================
use vstd::std_specs::iter::IteratorSpec;
verus! {

// `for x in &mut vec` desugars to this; std implements it as `self.iter_mut()`, and the
// contract below is the one vstd gives to `<[T]>::iter_mut` (checked by probing vstd).
pub assume_specification<'a, T, A: core::alloc::Allocator>[ <&'a mut Vec<T, A> as IntoIterator>::into_iter ](v: &'a mut Vec<T, A>) -> (r: <&'a mut Vec<T, A> as IntoIterator>::IntoIter)
    ensures
        r.remaining().len() == old(v)@.len(),
        final(v)@.len() == old(v)@.len(),
        forall|i: int| 0 <= i < old(v)@.len() ==> *(#[trigger] r.remaining()[i]) == old(v)@[i],
        forall|i: int| #![trigger r.remaining()[i]] #![trigger final(v)@[i]] 0 <= i < old(v)@.len() ==> *final(r.remaining()[i]) == final(v)@[i],
        r.obeys_prophetic_iter_laws(),
        r.will_return_none(),
        r.decrease() is Some,
;

// the reflexive conversion `impl<T> From<T> for T` is the identity (so `x.into()` at the same type is `x`)
pub assume_specification<T>[ <T as core::convert::From<T>>::from ](t: T) -> (r: T)
    ensures r == t;

} // verus!
