// fragment: Polygon field views + accessors (extracted; contracts as in unit c18_geo_types)
verus! {
pub closed spec fn ext<T: CoordNum>(p: Polygon<T>) -> Seq<Coord<T>> { p.exterior.0@ }
pub closed spec fn ints<T: CoordNum>(p: Polygon<T>) -> Seq<LineString<T>> { p.interiors@ }
pub open spec fn wf_polygon<T: CoordNum>(p: Polygon<T>) -> bool {
    closed(ext(p)) && all_closed(ints(p))
}
impl<T: CoordNum> Polygon<T> {
//@fn geo-types/src/geometry/polygon.rs | impl<T: CoordNum> Polygon<T> | exterior | id=C18.V.exterior | props=C18
//@ret r
//@spec
    ensures r.0@ == ext(*self),
//@end
//@fn geo-types/src/geometry/polygon.rs | impl<T: CoordNum> Polygon<T> | interiors | id=C18.V.interiors | props=C18
//@ret r
//@spec
    ensures r@ == ints(*self),
//@end
}
}
