// Unit c17_prepared: PreparedGeometry is a faithful wrapper (property C17): what it answers about dimensions,
// emptiness and the bounding rectangle is what the wrapped geometry (held by the cached graph) answers, and
// `prepare_geometry` caches the wrapped geometry's own bounding rectangle.  GeometryGraph / GeometryCow are
// abstract here (their methods are ASSUMED contracts: pure observers of an abstract geometry value).
//@include prelude_scalar.rs
use std::rc::Rc;
verus! {

pub trait GeoFloat: CoordNum {}
pub trait RTreeNum {}
// rstar implements RTreeNum for every scalar with the numeric traits GeoFloat implies (blanket impl)
impl<T: GeoFloat> RTreeNum for T {}

//@type geo-types/src/geometry/coord.rs | Coord
//@type geo-types/src/geometry/rect.rs | Rect
//@type geo/src/algorithm/dimensions.rs | Dimensions

/// abstract value of the wrapped geometry
pub struct GeomView { pub id: int }

#[verifier::external_body]
#[verifier::accept_recursive_types(F)]
pub struct GeometryCow<'a, F: GeoFloat> { _p: core::marker::PhantomData<&'a F> }
#[verifier::external_body]
#[verifier::accept_recursive_types(F)]
pub struct GeometryGraph<'a, F: GeoFloat> { _p: core::marker::PhantomData<&'a F> }
#[verifier::external_body]
#[verifier::accept_recursive_types(F)]
pub struct RTreeOfSegments<F: GeoFloat> { _p: core::marker::PhantomData<F> }
#[verifier::external_body]
pub struct RobustLineIntersector { _p: () }

pub uninterp spec fn cow_view<'a, F: GeoFloat>(g: &GeometryCow<'a, F>) -> GeomView;
pub uninterp spec fn graph_geom<'a, F: GeoFloat>(g: &GeometryGraph<'a, F>) -> GeomView;
pub uninterp spec fn dims_of(v: GeomView) -> Dimensions;
pub uninterp spec fn bdims_of(v: GeomView) -> Dimensions;
pub uninterp spec fn empty_of(v: GeomView) -> bool;
pub uninterp spec fn brect_of<F: GeoFloat>(v: GeomView) -> Option<Rect<F>>;

pub trait HasDimensions {
    spec fn hd_view(&self) -> GeomView;
    fn is_empty(&self) -> (r: bool) ensures r == empty_of(self.hd_view());
    fn dimensions(&self) -> (r: Dimensions) ensures r == dims_of(self.hd_view());
    fn boundary_dimensions(&self) -> (r: Dimensions) ensures r == bdims_of(self.hd_view());
}
pub trait BoundingRect<T: CoordNum> {
    type Output;
    fn bounding_rect(&self) -> Self::Output;
}

impl<'a, F: GeoFloat> HasDimensions for GeometryCow<'a, F> {
    open spec fn hd_view(&self) -> GeomView { cow_view(self) }
    #[verifier::external_body] fn is_empty(&self) -> (r: bool) { unimplemented!() }
    #[verifier::external_body] fn dimensions(&self) -> (r: Dimensions) { unimplemented!() }
    #[verifier::external_body] fn boundary_dimensions(&self) -> (r: Dimensions) { unimplemented!() }
}
impl<'a, F: GeoFloat> GeometryCow<'a, F> {
    #[verifier::external_body]
    pub fn bounding_rect(&self) -> (r: Option<Rect<F>>) ensures r == brect_of::<F>(cow_view(self)) { unimplemented!() }
}
impl<'a, F: GeoFloat> Clone for GeometryGraph<'a, F> {
    #[verifier::external_body]
    fn clone(&self) -> Self { unimplemented!() }
}
impl RobustLineIntersector {
    #[verifier::external_body]
    pub fn new() -> Self { unimplemented!() }
}
impl<'a, F: GeoFloat> GeometryGraph<'a, F> {
    /// ASSUMED: the graph remembers the geometry it was built from ...
    #[verifier::external_body]
    pub fn new(arg_index: usize, parent_geometry: GeometryCow<'a, F>) -> (r: Self)
        ensures graph_geom(&r) == cow_view(&parent_geometry)
    { unimplemented!() }
    /// ... and indexing / self-noding do not change which geometry that is (frame)
    #[verifier::external_body]
    pub fn build_tree(&self) -> (r: RTreeOfSegments<F>) { unimplemented!() }
    #[verifier::external_body]
    pub fn set_tree(&mut self, tree: std::rc::Rc<RTreeOfSegments<F>>)
        ensures graph_geom(final(self)) == graph_geom(old(self))
    { unimplemented!() }
    #[verifier::external_body]
    pub fn compute_self_nodes(&mut self, line_intersector: Box<RobustLineIntersector>)
        ensures graph_geom(final(self)) == graph_geom(old(self))
    { unimplemented!() }
    #[verifier::external_body]
    pub fn geometry(&self) -> (r: &GeometryCow<'a, F>) ensures cow_view(r) == graph_geom(self) { unimplemented!() }
}

//@type geo/src/algorithm/relate/geomgraph/index/prepared_geometry.rs | PreparedGeometry

/// the geometry the wrapper was prepared from, as seen through its cached graph
pub closed spec fn wrapped<'a, G: Into<GeometryCow<'a, F>>, F: GeoFloat + RTreeNum>(p: &PreparedGeometry<'a, G, F>) -> GeomView { graph_geom(&p.geometry_graph) }
pub closed spec fn cached_rect<'a, G: Into<GeometryCow<'a, F>>, F: GeoFloat + RTreeNum>(p: &PreparedGeometry<'a, G, F>) -> Option<Rect<F>> { p.bounding_rect }

impl<'a, G, F: GeoFloat> HasDimensions for PreparedGeometry<'a, G, F>
where
    F: GeoFloat + RTreeNum,
    G: Into<GeometryCow<'a, F>>,
{
    open spec fn hd_view(&self) -> GeomView { wrapped(self) }
//@fn geo/src/algorithm/relate/geomgraph/index/prepared_geometry.rs | impl<'a, G, F: GeoFloat> HasDimensions for PreparedGeometry<'a, G, F> where F: GeoFloat, G: Into<GeometryCow<'a, F>>, | is_empty | id=C17.V.prepared_is_empty
//@end
//@fn geo/src/algorithm/relate/geomgraph/index/prepared_geometry.rs | impl<'a, G, F: GeoFloat> HasDimensions for PreparedGeometry<'a, G, F> where F: GeoFloat, G: Into<GeometryCow<'a, F>>, | dimensions | id=C17.V.prepared_dimensions
//@end
//@fn geo/src/algorithm/relate/geomgraph/index/prepared_geometry.rs | impl<'a, G, F: GeoFloat> HasDimensions for PreparedGeometry<'a, G, F> where F: GeoFloat, G: Into<GeometryCow<'a, F>>, | boundary_dimensions | id=C17.V.prepared_boundary_dimensions
//@end
}

impl<'a, G, F> BoundingRect<F> for PreparedGeometry<'a, G, F>
where
    F: GeoFloat + RTreeNum,
    G: Into<GeometryCow<'a, F>>,
{
    type Output = Option<Rect<F>>;
//@fn geo/src/algorithm/relate/geomgraph/index/prepared_geometry.rs | impl<'a, G, F> BoundingRect<F> for PreparedGeometry<'a, G, F> where F: GeoFloat, G: Into<GeometryCow<'a, F>>, | bounding_rect | id=C17.V.prepared_bounding_rect
//@ret r
//@spec
        ensures r == cached_rect(self),
//@end
}

//@fn geo/src/algorithm/relate/geomgraph/index/prepared_geometry.rs | - | prepare_geometry | id=C17.V.prepare_geometry
//@ret r
//@spec
    requires
        forall|g: T| call_requires(T::into, (g,)),
        forall|g: &T| call_requires(T::clone, (g,)),
    ensures
        // the cached rectangle is the bounding rectangle of the geometry the graph was built from -- the one the
        // disjoint-envelope short cut of relate compares
        cached_rect(&r) == brect_of::<F>(wrapped(&r)),
//@end

} // verus!
fn main() {}
