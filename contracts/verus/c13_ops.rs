// Unit c13_ops: the blanket `AffineOps` impl (property C13): `affine_transform` / `affine_transform_mut` are
// `map_coords` / `map_coords_in_place` with the matrix's `apply` as the coordinate function -- the link between the
// Translate / Scale / Rotate / Skew layer (unit c13_layer: WHICH matrix), `AffineTransform::apply` (unit c13_affine: WHAT
// it computes) and the per-type `map_coords` impls (unit c19_map: f applied to every coordinate).
// MapCoords / MapCoordsInPlace are abstract here: `mapped(r, rel)` says "r is self with every coordinate c replaced by a
// c' with rel(c, c')"; ASSUMED of every impl: it is monotone in the relation (ax_mapped_mono).  The two inline closures
// get their types and contracts in place (X10).
//@include prelude_exact.rs
verus! {
//@type geo-types/src/geometry/coord.rs | Coord
#[verifier::external_body] #[verifier::accept_recursive_types(T)]
pub struct AffineTransform<T: CoordNum> { _p: core::marker::PhantomData<T> }
/// the image of a coordinate under the matrix (what `apply` returns: proved in unit c13_affine)
pub uninterp spec fn applied_to<T: CoordNum>(t: AffineTransform<T>, c: Coord<T>) -> Coord<T>;
impl<T: CoordNum> AffineTransform<T> {
    #[verifier::external_body]
    pub fn apply(&self, coord: Coord<T>) -> (r: Coord<T>) ensures r == applied_to(*self, coord) { unimplemented!() }
}
pub trait MapCoords<T: CoordNum, NT: CoordNum> {
    type Output;
    /// r is self with every coordinate c replaced by some c' with rel(c, c'), same shape and order
    spec fn mapped(&self, r: Self::Output, rel: spec_fn(Coord<T>, Coord<NT>) -> bool) -> bool;
    proof fn ax_mapped_mono(&self, r: Self::Output, rel1: spec_fn(Coord<T>, Coord<NT>) -> bool, rel2: spec_fn(Coord<T>, Coord<NT>) -> bool)
        requires self.mapped(r, rel1), forall|c: Coord<T>, d: Coord<NT>| #[trigger] rel1(c, d) ==> rel2(c, d),
        ensures self.mapped(r, rel2);
    fn map_coords<Impl0: Fn(Coord<T>) -> Coord<NT> + Copy>(&self, func: Impl0) -> (r: Self::Output)
        where T: CoordNum, NT: CoordNum,
        requires forall|c: Coord<T>| call_requires(func, (c,)),
        ensures self.mapped(r, |c: Coord<T>, d: Coord<NT>| call_ensures(func, (c,), d));
}
pub trait MapCoordsInPlace<T: CoordNum>: Sized {
    spec fn mapped_in_place(&self, r: Self, rel: spec_fn(Coord<T>, Coord<T>) -> bool) -> bool;
    proof fn ax_mapped_in_place_mono(&self, r: Self, rel1: spec_fn(Coord<T>, Coord<T>) -> bool, rel2: spec_fn(Coord<T>, Coord<T>) -> bool)
        requires self.mapped_in_place(r, rel1), forall|c: Coord<T>, d: Coord<T>| #[trigger] rel1(c, d) ==> rel2(c, d),
        ensures self.mapped_in_place(r, rel2);
    fn map_coords_in_place<Impl0: Fn(Coord<T>) -> Coord<T> + Copy>(&mut self, func: Impl0)
        where T: CoordNum,
        requires forall|c: Coord<T>| call_requires(func, (c,)),
        ensures old(self).mapped_in_place(*final(self), |c: Coord<T>, d: Coord<T>| call_ensures(func, (c,), d));
}
/// (the monotonicity axioms as broadcast lemmas, so that they apply to the anonymous closures of the real bodies)
pub broadcast proof fn lemma_mapped_mono<T: CoordNum, NT: CoordNum, M: MapCoords<T, NT>>(m: &M, r: M::Output, rel1: spec_fn(Coord<T>, Coord<NT>) -> bool, rel2: spec_fn(Coord<T>, Coord<NT>) -> bool)
    requires m.mapped(r, rel1), forall|c: Coord<T>, d: Coord<NT>| #[trigger] rel1(c, d) ==> rel2(c, d),
    ensures #![trigger m.mapped(r, rel1), m.mapped(r, rel2)] m.mapped(r, rel2)
{
    m.ax_mapped_mono(r, rel1, rel2);
}
pub broadcast proof fn lemma_mapped_in_place_mono<T: CoordNum, M: MapCoordsInPlace<T>>(m: &M, r: M, rel1: spec_fn(Coord<T>, Coord<T>) -> bool, rel2: spec_fn(Coord<T>, Coord<T>) -> bool)
    requires m.mapped_in_place(r, rel1), forall|c: Coord<T>, d: Coord<T>| #[trigger] rel1(c, d) ==> rel2(c, d),
    ensures #![trigger m.mapped_in_place(r, rel1), m.mapped_in_place(r, rel2)] m.mapped_in_place(r, rel2)
{
    m.ax_mapped_in_place_mono(r, rel1, rel2);
}
pub trait AffineOps<T: CoordNum>: Sized {
    fn affine_transform(&self, transform: &AffineTransform<T>) -> Self;
    fn affine_transform_mut(&mut self, transform: &AffineTransform<T>);
}
impl<T: CoordNum, M: MapCoordsInPlace<T> + MapCoords<T, T, Output = Self>> AffineOps<T> for M {
//@fn geo/src/algorithm/affine_ops.rs | impl<T: CoordNum, M: MapCoordsInPlace<T> + MapCoords<T, T, Output = Self>> AffineOps<T> for M | affine_transform | id=C13.V.affine_transform
//@ret r
//@spec
        ensures
            // every coordinate is replaced by its image under the matrix
            self.mapped(r, |c: Coord<T>, d: Coord<T>| d == applied_to(*transform, c)),
//@closure 1 `|c|` | c: Coord<T> | d: Coord<T>
            ensures d == applied_to(*transform, c)
//@entry
        broadcast use lemma_mapped_mono;
//@end
//@fn geo/src/algorithm/affine_ops.rs | impl<T: CoordNum, M: MapCoordsInPlace<T> + MapCoords<T, T, Output = Self>> AffineOps<T> for M | affine_transform_mut | id=C13.V.affine_transform_mut
//@spec
        ensures
            old(self).mapped_in_place(*final(self), |c: Coord<T>, d: Coord<T>| d == applied_to(*transform, c)),
//@closure 1 `|c|` | c: Coord<T> | d: Coord<T>
            ensures d == applied_to(*transform, c)
//@entry
        broadcast use lemma_mapped_in_place_mono;
//@end
}
} // verus!
fn main() {}
