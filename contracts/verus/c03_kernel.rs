// Unit c03_kernel: the default body of Kernel::orient2d (used by SimpleKernel for the integer scalars) returns
// the exact orientation sign whenever the arithmetic is exact ("products fit the type") -- property C03, clause 2.
// This is the proof obligation behind the ASSUMED Kernel contract of prelude_geo.rs for integer scalars.
//@include prelude_exact.rs
verus! {

//@type geo-types/src/geometry/coord.rs | Coord
//@type geo/src/algorithm/kernels/mod.rs | Orientation

/// num_traits::Zero as used by the kernel (`Zero::zero()`)
pub trait Zero: Sized {
    spec fn zval(self) -> int;
    fn zero() -> (r: Self) ensures r.zval() == 0;
}
pub trait KNum: CoordNum + Zero {
    proof fn ax_zero() ensures forall|a: Self| #[trigger] a.zval() == a.val();
}

pub struct P2 { pub x: int, pub y: int }
pub open spec fn pt<T: CoordNum>(c: Coord<T>) -> P2 { P2 { x: c.x.val(), y: c.y.val() } }
pub open spec fn cross(p: P2, q: P2, r: P2) -> int {
    (q.x - p.x) * (r.y - q.y) - (q.y - p.y) * (r.x - q.x)
}
pub open spec fn orient_spec(p: P2, q: P2, r: P2) -> Orientation {
    let c = cross(p, q, r);
    if c > 0 { Orientation::CounterClockwise } else if c < 0 { Orientation::Clockwise } else { Orientation::Collinear }
}

pub trait Kernel<T: KNum> {
//@fn geo/src/algorithm/kernels/mod.rs | trait Kernel<T: CoordNum> | orient2d | id=C03.V.kernel_orient2d_default
//@ret o
//@spec
        ensures o == orient_spec(pt(p), pt(q), pt(r)),
//@entry
        proof { T::ax_obeys(); T::ax_ring(); T::ax_order(); T::ax_zero(); }
//@end
}

} // verus!
fn main() {}
