// Unit c08_partition: `utils::partition_slice` (the partition step of quick hull, property C08) for slices of ANY
// length and ANY predicate (a generic `Fn(&T) -> bool`, known only through call_ensures): every element of the first
// returned part answered true, every element of the second answered false, and the two parts together have the length
// of the input.  PARTIAL correctness: termination of the outer `loop` is not proved (ghost attribute
// exec_allows_no_decreases_clause); NOT proved: that the parts are a permutation of the input (the K harness
// c08_k_partition_slice checks that on slices of up to 5 elements).  ASSUMED: std contract of `<[T]>::swap`.
use vstd::prelude::*;
verus! {
pub assume_specification<T> [ <[T]>::swap ] (s: &mut [T], a: usize, b: usize)
    requires a < old(s)@.len(), b < old(s)@.len(),
    ensures final(s)@ == old(s)@.update(a as int, old(s)@[b as int]).update(b as int, old(s)@[a as int]);

#[verifier::exec_allows_no_decreases_clause]
//@fn geo/src/utils.rs | - | partition_slice | id=C08.V.partition_slice
//@ret r
//@spec
    requires forall|x: &T| call_requires(predicate, (x,)),
    ensures
        r.0@.len() + r.1@.len() == old(data)@.len(),
        forall|i: int| 0 <= i < r.0@.len() ==> call_ensures(predicate, (&#[trigger] r.0@[i],), true),
        forall|i: int| 0 <= i < r.1@.len() ==> call_ensures(predicate, (&#[trigger] r.1@[i],), false),
//@loop 1
        invariant
            data@.len() == len, len > 0, l <= len, r < len, len == old(data)@.len(),
            forall|x: &T| call_requires(predicate, (x,)),
            forall|i: int| 0 <= i < l ==> call_ensures(predicate, (&#[trigger] data@[i],), true),
            forall|i: int| r < i < len ==> call_ensures(predicate, (&#[trigger] data@[i],), false),
//@loop 2
            invariant
                data@.len() == len, l <= len,
                forall|x: &T| call_requires(predicate, (x,)),
                forall|i: int| 0 <= i < l ==> call_ensures(predicate, (&#[trigger] data@[i],), true),
//@loop 3
            invariant
                data@.len() == len, r < len,
                forall|x: &T| call_requires(predicate, (x,)),
                forall|i: int| r < i < len ==> call_ensures(predicate, (&#[trigger] data@[i],), false),
//@end
} // verus!
fn main() {}
