// Unit c07_branches: which candidate set the Polygon x Polygon Euclidean distance takes its minimum over
// (property C07: "a geometry inside a hole of a polygon, nested polygons", zero exactly when they intersect,
// symmetric branch structure).  The leaf kernels are abstract (ASSUMED contracts): `intersects` (polygon x polygon),
// `ring_contains_coord` (strictly inside a ring: the C02 ring walk), `nearest_neighbour_distance` (ring to ring),
// the scalar's `min` / `max_value`.
//@include prelude_scalar.rs
//@include prelude_std.rs
//@include prelude_types.rs
//@include frag_polygon_access.rs
verus! {

pub trait GeoFloat: CoordNum {
    /// num_traits::Float::min on non-NaN values
    fn min(self, other: Self) -> (r: Self)
        ensures r.val() == (if self.val() <= other.val() { self.val() } else { other.val() });
    fn zero() -> (r: Self) ensures r.val() == 0;
}
/// num_traits::Float / Bounded as used here: `Float::max_value()`
pub trait Float: Sized {
    spec fn fval(self) -> int;
    fn max_value() -> (r: Self) ensures forall|x: Self| #[trigger] x.fval() <= r.fval();
}
pub trait DistNum: GeoFloat + Float {
    proof fn ax_fval() ensures forall|x: Self| #[trigger] x.fval() == x.val();
}

//@type geo/src/algorithm/line_measures/metric_spaces/euclidean/mod.rs | Euclidean

pub uninterp spec fn poly_meets<F: CoordNum>(a: Polygon<F>, b: Polygon<F>) -> bool;
pub uninterp spec fn strictly_inside_ring<F: CoordNum>(ring: Seq<Coord<F>>, c: Coord<F>) -> bool;
pub uninterp spec fn nnd<F: CoordNum>(a: Seq<Coord<F>>, b: Seq<Coord<F>>) -> int;

pub trait Intersects<Rhs = Self> { fn intersects(&self, rhs: &Rhs) -> bool; }
impl<F: DistNum> Intersects<Polygon<F>> for Polygon<F> {
    #[verifier::external_body]
    fn intersects(&self, rhs: &Polygon<F>) -> (r: bool) ensures r == poly_meets(*self, *rhs) { unimplemented!() }
}
#[verifier::external_body]
fn ring_contains_coord<T: DistNum>(ring: &LineString<T>, c: Coord<T>) -> (r: bool)
    ensures r == strictly_inside_ring(ring.0@, c)
{ unimplemented!() }
#[verifier::external_body]
fn nearest_neighbour_distance<F: DistNum>(geom1: &LineString<F>, geom2: &LineString<F>) -> (r: F)
    ensures r.val() == nnd(geom1.0@, geom2.0@)
{ unimplemented!() }

/// minimum of nnd(ring, hole) over the first k holes, starting from `inf` (the scalar's max_value: >= every scalar)
pub open spec fn min_over_holes<F: CoordNum>(ring: Seq<Coord<F>>, holes: Seq<LineString<F>>, k: int, inf: int) -> int
    decreases k
{
    if k <= 0 { inf } else {
        let m = min_over_holes(ring, holes, k - 1, inf);
        let d = nnd(ring, holes[k - 1].0@);
        if m <= d { m } else { d }
    }
}

pub trait Distance<F, Origin, Destination> {
    spec fn dist_pre(&self, origin: Origin, destination: Destination) -> bool;
    fn distance(&self, origin: Origin, destination: Destination) -> F
        requires self.dist_pre(origin, destination);
}

impl<F: DistNum> Distance<F, &Polygon<F>, &Polygon<F>> for Euclidean {
    /// (the code indexes the first exterior coordinate of both operands: non-empty polygons)
    open spec fn dist_pre(&self, polygon_a: &Polygon<F>, polygon_b: &Polygon<F>) -> bool { ext(*polygon_a).len() > 0 && ext(*polygon_b).len() > 0 }
//@fn geo/src/algorithm/line_measures/metric_spaces/euclidean/distance.rs | impl<F: GeoFloat> Distance<F, &Polygon<F>, &Polygon<F>> for Euclidean | distance | id=C07.V.polygon_polygon_branches
//@ret r
//@spec
        ensures
            // zero exactly ... when they intersect (the converse needs the leaf distances to be positive: not decided)
            poly_meets(*polygon_a, *polygon_b) ==> r.val() == 0,
            // b sits inside a's shell and does not meet a: it is in one of a's holes -- the distance is to the hole rings
            !poly_meets(*polygon_a, *polygon_b) && ints(*polygon_a).len() > 0 && strictly_inside_ring(ext(*polygon_a), ext(*polygon_b)[0]) ==>
                exists|inf: int| r.val() == #[trigger] min_over_holes(ext(*polygon_b), ints(*polygon_a), ints(*polygon_a).len() as int, inf),
            // the mirror image: a sits in one of b's holes
            !poly_meets(*polygon_a, *polygon_b)
                && !(ints(*polygon_a).len() > 0 && strictly_inside_ring(ext(*polygon_a), ext(*polygon_b)[0]))
                && ints(*polygon_b).len() > 0 && strictly_inside_ring(ext(*polygon_b), ext(*polygon_a)[0]) ==>
                exists|inf: int| r.val() == #[trigger] min_over_holes(ext(*polygon_a), ints(*polygon_b), ints(*polygon_b).len() as int, inf),
            // otherwise shell to shell
            !poly_meets(*polygon_a, *polygon_b)
                && !(ints(*polygon_a).len() > 0 && strictly_inside_ring(ext(*polygon_a), ext(*polygon_b)[0]))
                && !(ints(*polygon_b).len() > 0 && strictly_inside_ring(ext(*polygon_b), ext(*polygon_a)[0])) ==>
                r.val() == nnd(ext(*polygon_a), ext(*polygon_b)),
//@after 1 `let mut mindist: F = Float::max_value();`
            let ghost inf1 = mindist.val();
            proof { F::ax_fval(); }
//@after 2 `let mut mindist: F = Float::max_value();`
            let ghost inf2 = mindist.val();
            proof { F::ax_fval(); }
//@loop 1 it
                invariant
                    mindist.val() == min_over_holes(ext(*polygon_b), ints(*polygon_a), it.index@, inf1),
//@loop 2 it2
                invariant
                    mindist.val() == min_over_holes(ext(*polygon_a), ints(*polygon_b), it2.index@, inf2),
//@end
}

} // verus!
fn main() {}
